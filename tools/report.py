#!/usr/bin/env python3
"""Markdown tables for DESIGN.md section 8 from seeded/*/meta.json and seeded/mutants_results.json."""
import glob
import json
import os

HERE = os.path.dirname(os.path.dirname(os.path.abspath(__file__)))


def seeds():
    print("| seeded change | property | what it needs to manifest | demo (with / without) | suite with patch | our checks |")
    print("|---|---|---|---|---|---|")
    for f in sorted(glob.glob(os.path.join(HERE, "seeded", "*", "meta.json"))):
        m = json.load(open(f))
        checks = "; ".join(f"{k} {v['result']}" + (f" ({v['signatures'][0].split('  x')[0].replace('signature: ', '')})" if v.get("signatures") else "")
                           for k, v in sorted(m.get("checks", {}).items()))
        needs = m.get("needs_to_manifest", "").replace("|", "/")
        print(f"| {m['name']} | {m['property']} | {needs} | {m['demo_with_patch_rc']} / {m['demo_without_patch_rc']} | "
              f"{m.get('suite_with_patch', 'n/a').split(' in ')[0]} | {checks} |")


def mutants():
    p = os.path.join(HERE, "seeded", "mutants_results.json")
    if not os.path.exists(p):
        return
    d = json.load(open(p))
    by = {}
    for name, r in d.items():
        by.setdefault(r["property"], []).append((name, r["result"]))
    print("| property | deliberate breakages caught / tried | not caught |")
    print("|---|---|---|")
    for pid in sorted(by):
        rows = by[pid]
        miss = [n for n, r in rows if r != "caught"]
        print(f"| {pid} | {len(rows) - len(miss)} / {len(rows)} | {', '.join(miss)} |")


if __name__ == "__main__":
    import sys

    (seeds if len(sys.argv) < 2 or sys.argv[1] == "seeds" else mutants)()
