#!/usr/bin/env python3
"""Regenerate MANIFEST.json from the table below (kept valid against /root/.vp/MANIFEST.schema.json)."""
import json
import os

HERE = os.path.dirname(os.path.dirname(os.path.abspath(__file__)))

# pid -> (technique, level text, level note, design ref)
CHECKS = {}


def add(pid, technique, text, note, ref):
    CHECKS[pid] = (technique, text, note, ref)


add("C13", "Hypothesis generated search + exhaustive small-lattice enumeration vs brute-force exact-rational dominance oracle",
    "Generated-input search: every sequence of <=4/5 points of small 2-D/3-D lattices under 8 exact cones is enumerated, "
    "plus thousands of random (cone incl. K>m, integer-dtype and sheared matrices; point list) cases with ties, chains, duplicates, far-from-origin, tiny-scale and ulp-neighbour sets up to 300 points; the returned index "
    "arrays of both routines are compared with a brute-force dominance matrix evaluated in exact rational arithmetic.",
    "Trusted: Python fractions, numpy indexing; cones pointed+solid; coordinates dyadic (or full-mantissa values a few ulps apart), translated up to 3e6 and rescaled by 2^-60..2^20, so that differences and facet products of differences are exact.",
    "DESIGN.md section 3 C13")

add("C12", "Hypothesis generated search + lattice enumeration vs exact rational facet inequalities; angle sweeps vs closed forms",
    "dominates()/is_inside() on dyadic cones and lattice vectors are compared with W(a-b)>=0 in exact rational arithmetic together with the "
    "reflexive/transitive/translation/scaling/antisymmetry/batched laws (incl. integer-dtype and sheared cone matrices); bundled cones are swept over their parameter ranges "
    "(theta in (0.5,179.5), ice-cream K=3..40) against closed-form membership, unit-normal, tangency and spacing conditions.",
    "Trusted: Python fractions; dyadic inputs make the float evaluation exact; 1e-6 degree band around facet directions.",
    "DESIGN.md section 3 C12")
add("C16", "model-based testing: generated operation histories vs an independent accumulator (Hypothesis, op list as data)",
    "Generated add/update/clear/predict/rejected-add histories (indices as lists with repeats and as sets whose iteration order is "
    "not sorted) are replayed against EmpiricalMeanVarModel and against an independent per-design accumulator; means, population "
    "variances, noise-variance fallback, untracked defaults, shapes and rejection without state change are compared after every predict.",
    "Trusted: math.fsum reference; comparison when the model was updated after the last add (the algorithms' protocol).",
    "DESIGN.md section 3 C16")
add("C17", "Hypothesis generated cones vs NNLS / least-distance-programming oracles with primal+dual certificates",
    "alpha, u*, d1 and beta read from the real classes (OrderingCone.alpha, VOGP/VOGP_AD.compute_u_star, ConeTheta2D.beta) are compared "
    "with Moreau-projection and Lawson-Hanson optima whose primal and dual certificates are verified by plain arithmetic, over bundled cones' "
    "full parameter ranges and random unit-normal cones in 2-4 dimensions with K>=m facets.",
    "Trusted: scipy nnls; agreement demanded at 1e-6.", "DESIGN.md section 3 C17")
add("C20", "Hypothesis generated datasets/queries vs brute-force nearest row; differential decoupled-vs-wrapped under equal seed; statistical law tests; exhaustive bundled datasets",
    "Noise-free evaluation is compared exactly with the brute-force nearest design, decoupled evaluation with the wrapped problem's output under the "
    "same seed for every index form, input arrays are compared bit-for-bit before/after, the noise law of 4 routes x 20000 draws is tested against "
    "Sigma = L L^T with 7-sigma moment bounds and KS, bundled datasets are checked exhaustively, normalise/unnormalise round-trip.",
    "Trusted: numpy RNG seeding via vopy.utils.set_seed; statistical false-alarm probability < 1e-8 per case; near-tie queries skipped.",
    "DESIGN.md section 3 C20")

add("C09", "Hypothesis margin-targeted region pairs vs closed-form support-function oracle (exact rationals on dyadic data)",
    "Pairs of hyper-rectangles / ellipsoids are placed by the generator at certified facet margins +-{1..1e-5} x scale for every cone class "
    "(K>=m, 2-4-D) and scalar/vector slacks; confidence_region_is_dominated is compared with per-facet support-function minima; dyadic "
    "rectangles are decided in exact rational arithmetic, boundary included; the same for region objects that were compared once and then moved "
    "through update(), for regions far from the origin and for small ellipsoids written as a large radius times a tiny correlated covariance.",
    "Band: rectangles 1e-11*scale, ellipsoids 2e-7+2e-6*scale (measured flip level of the SOCP path <= 1e-8); slacks non-negative.",
    "DESIGN.md section 3 C09")
add("C10", "Hypothesis margin-targeted region pairs vs certificate-checked LP / convex-dual oracles",
    "confidence_region_is_covered is compared with a certified bracket [lb,ub] of the max-min cover margin: boxes by an LP (HiGHS) whose primal witness "
    "and dual separating functional are re-verified by arithmetic, ellipsoids by the convex dual over the simplex plus primal recovery; pairs are "
    "placed at margins +-{1..3e-3} x scale over scales 1e-4..1e2, all cone classes and slack forms; also on region objects reused after update() "
    "and on small strongly correlated ellipsoids (covariance entries <= 1e-8).",
    "Band 1e-9+1e-3*scale = measured accuracy of the code's SCS fallback path; an oracle bracket straddling the band counts indeterminate.",
    "DESIGN.md section 3 C10")
add("C11", "Hypothesis margin-targeted rectangle pairs and families vs per-vertex LP oracle with verified certificates",
    "confidence_region_check_dominates is checked for soundness under every cone class and for completeness under two-facet 2-D cones against "
    "min over vertices of a certified LP margin, with nested / degenerate / equal-coordinate pairs; VOGP and EpsilonPAL.compute_pessimistic_set "
    "are compared with the exact non-dominated family and, exactly (ties included), with the definition applied to the pairwise comparison.",
    "Band 1e-9*scale; LP certificates verified by arithmetic.", "DESIGN.md section 3 C11")

add("C19", "Hypothesis generated value sets vs NNLS/least-distance oracles, definitional shift test, F1 recomputation and metamorphic laws, independent hypervolume",
    "get_delta/get_smallmij are compared with min_n w_n.d/alpha_n under NNLS alpha and with the definition itself (shifted copies along unit cone "
    "directions); is_covered/get_uncovered_* with a least-distance programme carrying a dual bound; calculate_epsilonF1_score with an independent "
    "recomputation plus range / truth=1 / order-invariance / monotone-in-eps laws; the hypervolume routine with an independent slicing computation "
    "through a recording wrapper (true >= predicted, value = log difference).",
    "eps drawn >= 1% away from critical distances; band 1e-3*scale for solver-decided coverage; hypervolume with K<=3 facets and 32..128 Sobol points "
    "(sampler rebound at module level).", "DESIGN.md section 3 C19")

add("C15", "model-based testing: generated add/update/clear/predict histories per GP class vs closed-form numpy conditioning; factory helpers with real training",
    "For each of the three GP classes a generated history (batches, repeated inputs, per-objective observations, clears, single-point predictions, "
    "unequal input/objective dimensions, scalar and full-matrix noise) is replayed and every predict is compared with closed-form Gaussian "
    "conditioning on the harness's own record of the data held at the last update, under the generated hyper-parameters; the two train-and-freeze "
    "helpers are trained for real and must be up to date with the data they report; reported lengthscales/variances are compared with the kernel.",
    "Closed form in float64 numpy (Cholesky); 1e-6 relative; hyper-parameters in a well-conditioned range; two known findings listed (F12, F14).",
    "DESIGN.md section 3 C15")

add("C14", "model-based testing: generated update histories on both design-space classes vs model.predict on the full design matrix; region-level iterative-intersection sequences",
    "Generated sequences of design_space.update(model, scale, subset) - subsets of size 1..N in any order, scalar / per-objective / per-design scales, "
    "stub (known mean, covariance), empirical and the three GP model classes, fixed and adaptively refined spaces - are compared region by region with "
    "centre = predicted mean, half-width = scale x std (rectangles) or (mean, covariance, radius) (ellipsoids); untouched regions must stay bit-identical; "
    "lower <= upper; intersect_iteratively sequences against the intersection / replacement rule.",
    "Reference prediction through the N>=2 path of predict(); 1e-7 relative for GP batching round-off, 1e-12 otherwise; touching rectangles accept either outcome.",
    "DESIGN.md section 3 C14")

add("C04", "Hypothesis generated configurations; real schedule + real region builder; exact Gaussian/chi-square tail sums with dyadic condensation bound",
    "For 8 algorithm/confidence-type variants and generated (delta, K, m, batch size, noise / posterior covariance) the real compute_radius/alpha/beta at contraction 1 is "
    "evaluated per round, pushed through design_space.update with a stub model of known mean/covariance, the displayed geometry is read back and the exact "
    "per-round miss probability is summed over t <= 4096 plus a rigorous condensation bound to t = 2^60; K x sum must not exceed delta; the namespace route is cross-checked against real algorithm instances.",
    "Horizon 2^60; monotone per-round terms checked on the grid; schedules read through unbound methods on a namespace carrying exactly the inputs the property lists.",
    "DESIGN.md section 3 C04")
add("C08", "Hypothesis generated instances: closed-form failure probability by quadrature, Monte-Carlo with exact binomial test, proxy-log recomputation of P",
    "algorithm.L is read from real NaiveElimination instances on generated two-design problems with gap eps(1+eta) and the exact failure probability "
    "1 - P[N(d, 2 sigma^2/L I) in C] (1-D quadrature, self-checked against Monte-Carlo) must be <= delta; real runs on 3-6 designs are counted against an exact "
    "binomial tail; after every step P is compared with the brute-force Pareto set of per-design means of the logged observations.",
    "2-D theta cones only (the bundled cones with beta); K >= 2; Monte-Carlo violation threshold 1e-9.", "DESIGN.md section 3 C08")

add("C06", "stateful property-based testing of whole runs: Hypothesis-generated configurations, invariants after every run_one_step against a recording proxy",
    "Each generated configuration (nine algorithms x orders incl. K>m facets x confidence types x batch 1..K+3 x costs/budgets x real / empirical / stub models, "
    "K=1..10 designs or user-defined continuous problems) is run step by step to completion plus three further steps; after every step the harness checks: no "
    "exception, S shrinking / P growing (VOGP_AD modulo parent->children), S and P disjoint, U within P, no return to S, completion flag <=> (S empty or L rounds or "
    "budget reached), post-completion steps change nothing and sample nothing, round +1, sample_count and total_cost equal to what the proxy on problem.evaluate logged.",
    "GP hyper-parameters generated instead of trained (factory name rebound in the algorithm module); no liveness claim (step cap => inconclusive); known findings F7, F12 listed.",
    "DESIGN.md section 3 C06")

add("C02", "stateful property-based testing: every step of generated runs and directly injected single steps vs a reference transition recomputed from the displayed regions",
    "For the seven eliminating algorithms, after every run_one_step (runs with adversarial stub, real empirical and real GP posteriors) and for directly injected "
    "S/P/U + region configurations (identical, touching, shifted by 0.5..5 eps along the cone, single-design active sets) the set that left S without entering P is "
    "compared in both directions with the discard set of an independent reference transition built on the C09-C11 oracles (closed-form dominance, certified cover, "
    "per-vertex pessimistic LP; Auer: each design's own displayed half-widths).",
    "Steps with a consulted predicate inside its numerical band are indeterminate; for VOGP-family on cones other than 2x2 the pessimistic set comes from the code's own comparison.",
    "DESIGN.md section 2 and section 3 C02")
add("C03", "stateful property-based testing: every step of generated runs and injected single rounds vs the reference transition (P-entries, useful set, Auer hold-back)",
    "Same machinery as C02 for the designs entering P, monotonicity of P and the useful set U; Auer is additionally driven through single rounds with one clearly "
    "dominated design and per-design variances with ratios up to 100 so that a discard precedes width-dependent P decisions, and through heteroscedastic real problems.",
    "As C02; a step whose discard part already disagrees is left to C02.", "DESIGN.md section 2 and section 3 C03")

add("C01", "stateful property-based testing of whole runs under an adversarial stub posterior (truth kept inside every displayed region) and real models; independent oracles on the true means",
    "Runs of PaVeBa, PaVeBaGP (IH/DE), PaVeBaPartialGP (both confidence types) and Auer to termination on generated datasets with ties and gaps eps(1+-eta): the stub posterior "
    "places the truth on region corners/boundaries with anisotropic shrinking covariances, per-round offsets come from a generated table (the history shrinks as data); a closed-form "
    "monitor re-verifies the premise each round; the conclusion (every excluded design weakly dominated by a member of P; every member's gap <= eps with NNLS alpha) is decided on the true means.",
    "Premise-failing or step-capped runs are excluded and counted; known finding F8 (rectangular PaVeBa types, rho>1) listed and excluded by signature.",
    "DESIGN.md section 2 and section 3 C01")
add("C05", "stateful property-based testing of whole VOGP / eps-PAL runs under adversarial stub and real GP posteriors; independent oracles on the true values",
    "Runs to termination with batch 1..3 on datasets with engineered eps-isolated designs and near-duplicates; premise (truth inside every active design's displayed rectangle) re-verified "
    "each round; conclusion on the truth: every design unmatched up to eps*u* (eps-PAL: eps per objective; u* from a least-distance programme) is in P and no member of P is dominated by "
    "another member by more than the slack.",
    "Premise-failing or step-capped runs excluded and counted; band 1e-9*scale.", "DESIGN.md section 2 and section 3 C05")

add("C07", "Hypothesis generated acquisition value tables for the two discrete optimisers; stateful testing of every evaluation of generated runs against harness-recomputed acquisition values and a recording proxy",
    "(i) optimize_acqf_discrete / optimize_decoupled_acqf_discrete on table-backed acquisitions with ties, duplicates, costs and q up to beyond the table size: distinct rows, "
    "non-increasing values, multiset = top-q, values/objective indices belong to the returned rows, evaluation index restored; (ii) for all nine algorithms each step's queries "
    "(from the proxy on problem.evaluate) must be active designs maximising the acquisition recomputed on the state the code used, batches distinct and non-increasing, and the "
    "model's data after the step must be its data before plus exactly the logged (x, y, objective) triples in order (incl. runs with 9..24 designs whose active sets do not iterate in sorted order).",
    "Near-ties at 1e-9 relative accept either choice; Thompson acquisition checked against the tables it actually returned (recording subclass bound at the name the algorithm imports).",
    "DESIGN.md section 3 C07")

add("C18", "model-based testing of refine histories with exact dyadic arithmetic; stateful testing of VOGP_AD runs with a logging wrapper on refine_design",
    "(a) generated sequences of refine_design / update / should_refine_design calls on the adaptive design space (d=1..3, max depth 2..5, any leaf below the maximum depth in any order) "
    "checked with exact rational arithmetic: 2^d children, half side, tiling of the parent, centres, depth+1 <= max, parent's region, earlier entries untouched, leaves tile the cube; "
    "(b) VOGP_AD runs on generated continuous problems: after every step S and P are leaves with interior-disjoint cells, all leaves tile the unit cube, a refined node is replaced by its "
    "children in the same set, every member of P is at the maximum depth; (c) epsiloncovering() on injected candidate sets of mixed depths must not declare anything.",
    "Cells are dyadic (Fractions exact); VOGP_AD with generated hyper-parameters; in_dim >= out_dim (F12 under C06/C15 otherwise).", "DESIGN.md section 3 C18")

PENDING = {}


def main():
    props = [json.loads(l) for l in open(os.path.join(HERE, "properties.jsonl"))]
    checks, na = [], []
    for p in props:
        pid = p["id"]
        if pid in CHECKS and os.path.exists(os.path.join(HERE, "vverif", "props", pid + ".py")):
            tech, text, note, ref = CHECKS[pid]
            checks.append({
                "property_id": pid,
                "quick_cmd": f"./check {pid} quick",
                "thorough_cmd": f"./check {pid} thorough",
                "evidence_file": f"evidence/{pid}.json",
                "replay_cmd_template": "./check --replay {path}",
                "engine": "vverif",
                "level_claimed": {"category": "exploration", "text": text, "design_ref": ref},
                "level_note": note,
                "technique": tech,
            })
        else:
            na.append({"property_id": pid, "reason": PENDING.get(pid, "check not built yet in this revision of /verif (property-based check planned, see DESIGN.md section 3); not claimed until registered")})
    man = {
        "version": 1,
        "setup_cmd": "./setup.sh",
        "hooks": {
            "guard": "VOPY_VERIF",
            "enable": "no source hooks: checks import /repo's working tree directly (PYTHONPATH=/repo) and observe through public attributes and harness-side wrappers",
            "baseline_off_cmd": "cd /repo && /venv/bin/python -m pytest -ra -q -p no:cacheprovider --timeout=900 --continue-on-collection-errors",
            "source_commits": [],
            "add_only": True,
        },
        "engines": [{
            "name": "vverif",
            "path": "vverif/",
            "serves_properties": [c["property_id"] for c in checks],
            "kind_free_text": "Hypothesis-driven generated-input search (sharded over 16 processes, survey-then-shrink, replay files) against independent oracles; exhaustive enumeration of small finite domains",
        }],
        "checks": checks,
        "notes": "All checks: ./check <id> <quick|thorough>; exit 0 held / 1 VIOLATION / 2 harness error. VERIF_SEED seeds every Hypothesis search. Known findings: KNOWN_FINDINGS.txt. Seeded breakages: seeded/.",
        "not_applicable": na,
    }
    with open(os.path.join(HERE, "MANIFEST.json"), "w") as f:
        json.dump(man, f, indent=1)
    print(f"{len(checks)} checks, {len(na)} not claimed")


if __name__ == "__main__":
    main()
