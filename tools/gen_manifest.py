#!/usr/bin/env python3
"""Regenerate MANIFEST.json from the table below (kept valid against /root/.vp/MANIFEST.schema.json)."""
import json
import os

HERE = os.path.dirname(os.path.dirname(os.path.abspath(__file__)))

# pid -> (technique, level text, level note, design ref)
CHECKS = {}


def add(pid, technique, text, note, ref):
    CHECKS[pid] = (technique, text, note, ref)


add("C13", "Hypothesis generated search + exhaustive small-lattice enumeration vs brute-force exact-rational dominance oracle",
    "Generated-input search: every sequence of <=4/5 points of small 2-D/3-D lattices under 8 exact cones is enumerated, "
    "plus thousands of random (cone, point list) cases with ties, chains and duplicates up to 300 points; the returned index "
    "arrays of both routines are compared with a brute-force dominance matrix evaluated in exact rational arithmetic.",
    "Trusted: Python fractions, numpy indexing; cones pointed+solid; lattice spacing >= 1/4 (np.allclose in the naive routine).",
    "DESIGN.md section 3 C13")

PENDING = {}


def main():
    props = [json.loads(l) for l in open(os.path.join(HERE, "properties.jsonl"))]
    checks, na = [], []
    for p in props:
        pid = p["id"]
        if pid in CHECKS and os.path.exists(os.path.join(HERE, "vverif", "props", pid + ".py")):
            tech, text, note, ref = CHECKS[pid]
            checks.append({
                "property_id": pid,
                "quick_cmd": f"./check {pid} quick",
                "thorough_cmd": f"./check {pid} thorough",
                "evidence_file": f"evidence/{pid}.json",
                "replay_cmd_template": "./check --replay {path}",
                "engine": "vverif",
                "level_claimed": {"category": "exploration", "text": text, "design_ref": ref},
                "level_note": note,
                "technique": tech,
            })
        else:
            na.append({"property_id": pid, "reason": PENDING.get(pid, "check not built yet in this revision of /verif (property-based check planned, see DESIGN.md section 3); not claimed until registered")})
    man = {
        "version": 1,
        "setup_cmd": "./setup.sh",
        "hooks": {
            "guard": "VOPY_VERIF",
            "enable": "no source hooks: checks import /repo's working tree directly (PYTHONPATH=/repo) and observe through public attributes and harness-side wrappers",
            "baseline_off_cmd": "cd /repo && /venv/bin/python -m pytest -ra -q -p no:cacheprovider --timeout=900 --continue-on-collection-errors",
            "source_commits": [],
            "add_only": True,
        },
        "engines": [{
            "name": "vverif",
            "path": "vverif/",
            "serves_properties": [c["property_id"] for c in checks],
            "kind_free_text": "Hypothesis-driven generated-input search (sharded over 16 processes, survey-then-shrink, replay files) against independent oracles; exhaustive enumeration of small finite domains",
        }],
        "checks": checks,
        "notes": "All checks: ./check <id> <quick|thorough>; exit 0 held / 1 VIOLATION / 2 harness error. VERIF_SEED seeds every Hypothesis search. Known findings: KNOWN_FINDINGS.txt. Seeded breakages: seeded/.",
        "not_applicable": na,
    }
    with open(os.path.join(HERE, "MANIFEST.json"), "w") as f:
        json.dump(man, f, indent=1)
    print(f"{len(checks)} checks, {len(na)} not claimed")


if __name__ == "__main__":
    main()
