#!/usr/bin/env python3
"""Sensitivity harness: apply one textual mutation at a time to a scratch copy of /repo/vopy
(outside /repo and /verif), run the property's quick check against it (VERIF_REPO), report.

usage: tools/mutants.py [Cxx ...] [--only name] [--scale f]
"""
import json
import os
import shutil
import subprocess
import sys
import tempfile
import time

HERE = os.path.dirname(os.path.dirname(os.path.abspath(__file__)))
sys.path.insert(0, os.path.join(HERE, "tools"))
from mutant_table import MUTANTS  # noqa: E402


def run_one(mu, scale):
    name, pid, path, old, new = mu["name"], mu["pid"], mu["file"], mu["old"], mu["new"]
    tmp = tempfile.mkdtemp(prefix="vopymut_", dir="/tmp")
    try:
        shutil.copytree("/repo/vopy", os.path.join(tmp, "vopy"), ignore=shutil.ignore_patterns("__pycache__"))
        fp = os.path.join(tmp, path)
        src = open(fp).read()
        if src.count(old) < 1:
            return name, pid, "PATTERN-NOT-FOUND", 0
        src = src.replace(old, new) if mu.get("all") else src.replace(old, new, 1)
        open(fp, "w").write(src)
        env = dict(os.environ, VERIF_REPO=tmp, VERIF_SCALE=str(scale), VERIF_SHRINK_S="5",
                   VERIF_EVIDENCE_DIR=os.path.join(tmp, "ev"), VERIF_REPLAY_DIR=os.path.join(tmp, "rp"))
        if mu.get("component"):
            env["VERIF_ONLY"] = mu["component"]
        t0 = time.time()
        p = subprocess.run([os.path.join(HERE, "check"), pid, "quick"], env=env, cwd=HERE,
                           stdout=subprocess.PIPE, stderr=subprocess.STDOUT, text=True)
        dt = time.time() - t0
        sigs = [l.strip() for l in p.stdout.splitlines() if l.strip().startswith("signature:")]
        status = {0: "MISSED", 1: "caught", 2: "HARNESS-ERROR"}.get(p.returncode, f"rc={p.returncode}")
        if p.returncode == 2:
            sigs = p.stdout.splitlines()[-5:]
        return name, pid, status, dt, sigs[:3]
    finally:
        shutil.rmtree(tmp, ignore_errors=True)


def main():
    args = sys.argv[1:]
    only = None
    scale = 1.0
    pids = []
    i = 0
    while i < len(args):
        if args[i] == "--only":
            only = args[i + 1]
            i += 2
        elif args[i] == "--scale":
            scale = float(args[i + 1])
            i += 2
        else:
            pids.append(args[i])
            i += 1
    res = []
    for mu in MUTANTS:
        if pids and mu["pid"] not in pids:
            continue
        if only and mu["name"] != only:
            continue
        r = run_one(mu, scale)
        print(r, flush=True)
        res.append(r)
    outp = os.path.join(HERE, "seeded", "mutants_results.json")
    try:
        old = json.load(open(outp))
    except Exception:  # noqa: BLE001
        old = {}
    for r in res:
        old[r[0]] = {"property": r[1], "result": r[2], "seconds": round(r[3]) if len(r) > 3 else 0, "signatures": [x[:200] for x in (r[4] if len(r) > 4 else [])][:2]}
    os.makedirs(os.path.dirname(outp), exist_ok=True)
    json.dump(old, open(outp, "w"), indent=1, sort_keys=True)
    missed = [r for r in res if r[2] != "caught"]
    print(f"{len(res) - len(missed)}/{len(res)} caught; not caught: {[r[0] for r in missed]}")


if __name__ == "__main__":
    main()
