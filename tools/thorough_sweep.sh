#!/bin/bash
# run the thorough tier of the given checks one after another with a per-check wall budget (default 1500 s)
cd "$(dirname "$0")/.."
B=${VERIF_BUDGET_S:-1500}
for p in "$@"; do
  out=$(VERIF_BUDGET_S=$B VERIF_EVIDENCE_DIR=/tmp/thorough_ev VERIF_REPLAY_DIR=/tmp/thorough_rp ./check $p thorough 2>&1 | grep -v "^WARN")
  echo "$out" | grep -E "VIOLATION|HARNESS|signature" | cut -c1-600
  echo "$out" | tail -1 | cut -c1-300
done
