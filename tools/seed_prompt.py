#!/usr/bin/env python3
"""Print the sub-agent prompt for one property: tools/seed_prompt.py <Cxx> <worktree> [extra sentence]
Only the property text (id, title, statement, quantifier), neutral API hints and the names of changes already
taken (so that a new idea is chosen) go into the prompt - nothing else from /verif."""
import glob
import json
import os
import sys

HERE = os.path.dirname(os.path.dirname(os.path.abspath(__file__)))
pid, d = sys.argv[1], sys.argv[2]
extra = sys.argv[3] if len(sys.argv) > 3 else ""
props = {json.loads(l)["id"]: json.loads(l) for l in open(os.path.join(HERE, "properties.jsonl"))}
p = props[pid]
hints = json.load(open(os.path.join(HERE, "seeded", "subagent_hints.json")))
taken = []
for f in sorted(glob.glob(os.path.join(HERE, "seeded", pid + "_*", "meta.json"))):
    m = json.load(open(f))
    taken.append("- " + m["name"][4:].replace("_", " ") + " (" + ", ".join(m.get("files_changed", [])) + ")")
hint = hints.get(pid, "")
if hint:
    hint = "API hints: " + hint
if taken:
    hint += ("\n\nOther people have already tried the following ideas for this property - choose a DIFFERENT idea, at a "
             "different code site if possible:\n" + "\n".join(taken))
if extra:
    hint += "\n\n" + extra
t = open(os.path.join(HERE, "seeded", "SUBAGENT_TASK_TEMPLATE.md")).read()
print(t.format(d=d, pid=pid, title=p["title"], statement=p["statement"], quant=p["quantifier"]["text"], hint=hint))
