"""Deliberate breakages (DESIGN.md section 3, 'S' lists): each must be caught by the named property's quick check."""
MUTANTS = []


def M(name, pid, file, old, new, **kw):
    MUTANTS.append(dict(name=name, pid=pid, file=file, old=old, new=new, **kw))


# ---- C13
M("pareto-next-index-off-by-one", "C13", "vopy/order.py", "next_point_index = np.sum(nondominated_point_mask[:next_point_index]) + 1",
  "next_point_index = np.sum(nondominated_point_mask[: next_point_index + 1]) + 1")
M("pareto-self-not-protected", "C13", "vopy/order.py", "            nondominated_point_mask[next_point_index] = True\n", "")
M("pareto-naive-skip-equal-removed", "C13", "vopy/order.py", "                if np.allclose(el, other_el):\n                    continue\n", "")
M("pareto-elements-not-compacted", "C13", "vopy/order.py", "            elements = elements[nondominated_point_mask]\n", "")
# ---- C12
M("inside-strict", "C12", "vopy/ordering_cone.py", "(x @ self.W.T >= 0).all(axis=-1)", "(x @ self.W.T > 0).all(axis=-1)")
M("inside-any", "C12", "vopy/ordering_cone.py", "(x @ self.W.T >= 0).all(axis=-1)", "(x @ self.W.T >= 0).any(axis=-1)")
M("dominates-reversed", "C12", "vopy/order.py", "return self.ordering_cone.is_inside(a - b)", "return self.ordering_cone.is_inside(b - a)")
M("theta-full-angle", "C12", "vopy/utils/utils.py", "angle_radian = (cone_degree / 180) * np.pi", "angle_radian = (cone_degree / 90) * np.pi")
M("theta-obtuse-branch", "C12", "vopy/utils/utils.py", "    if cone_degree <= 90:", "    if cone_degree <= 100:")
M("ice-no-normalise", "C12", "vopy/order.py", "            W[i] = W[i] / np.linalg.norm(W[i])", "            W[i] = W[i] / 1.0")
M("ice-radius-tan-theta", "C12", "vopy/order.py", "theta_rad = np.pi / 2 - np.radians(theta)", "theta_rad = np.radians(theta)")
M("ice-spacing", "C12", "vopy/order.py", "delta_angle = 2 * np.pi / K", "delta_angle = 2 * np.pi / (K + 1)")
M("c3d-acute-obtuse-swapped", "C12", "vopy/order.py", '        if cone_type == "acute":', '        if cone_type == "obtuse_":')
# ---- C16
M("emp-sample-variance", "C16", "vopy/models/empirical_mean_var.py", "np.diag(np.var(design, axis=0))", "np.diag(np.var(design, axis=0, ddof=1))")
M("emp-bound-check", "C16", "vopy/models/empirical_mean_var.py", "if max(indices) >= self.design_count:", "if max(indices) > self.design_count:")
M("emp-sorted-pairing", "C16", "vopy/models/empirical_mean_var.py", "for idx, y in zip(indices, Y_t):", "for idx, y in zip(sorted(indices), Y_t):")
M("emp-last-only", "C16", "vopy/models/empirical_mean_var.py", "[self.design_samples[idx], y.reshape(-1, self.output_dim)], axis=0", "[self.design_samples[idx][:0], y.reshape(-1, self.output_dim)], axis=0")
M("emp-var-threshold", "C16", "vopy/models/empirical_mean_var.py", "if len(design) > 1", "if len(design) > 2")
M("emp-clear-noop", "C16", "vopy/models/empirical_mean_var.py", "        self.design_samples = [np.empty((0, self.output_dim)) for _ in range(self.design_count)]", "        if not hasattr(self, 'design_samples'):\n            self.design_samples = [np.empty((0, self.output_dim)) for _ in range(self.design_count)]")
M("emp-partial-add-before-reject", "C16", "vopy/models/empirical_mean_var.py", "        if max(indices) >= self.design_count:\n            raise ValueError(\"Design index out of bounds.\")\n\n        for idx, y in zip(indices, Y_t):", "        for idx, y in zip(indices, Y_t):\n            if idx >= self.design_count:\n                raise ValueError(\"Design index out of bounds.\")")
