"""Deliberate breakages (DESIGN.md section 3, 'S' lists): each must be caught by the named property's quick check."""
MUTANTS = []


def M(name, pid, file, old, new, **kw):
    MUTANTS.append(dict(name=name, pid=pid, file=file, old=old, new=new, **kw))


# ---- C13
M("pareto-next-index-off-by-one", "C13", "vopy/order.py", "next_point_index = np.sum(nondominated_point_mask[:next_point_index]) + 1",
  "next_point_index = np.sum(nondominated_point_mask[: next_point_index + 1]) + 1")
M("pareto-self-not-protected", "C13", "vopy/order.py", "            nondominated_point_mask[next_point_index] = True\n", "")
M("pareto-naive-skip-equal-removed", "C13", "vopy/order.py", "                if np.allclose(el, other_el):\n                    continue\n", "")
M("pareto-elements-not-compacted", "C13", "vopy/order.py", "            elements = elements[nondominated_point_mask]\n", "")
# ---- C12
M("inside-strict", "C12", "vopy/ordering_cone.py", "(x @ self.W.T >= 0).all(axis=-1)", "(x @ self.W.T > 0).all(axis=-1)")
M("inside-any", "C12", "vopy/ordering_cone.py", "(x @ self.W.T >= 0).all(axis=-1)", "(x @ self.W.T >= 0).any(axis=-1)")
M("dominates-reversed", "C12", "vopy/order.py", "return self.ordering_cone.is_inside(a - b)", "return self.ordering_cone.is_inside(b - a)")
M("theta-full-angle", "C12", "vopy/utils/utils.py", "angle_radian = (cone_degree / 180) * np.pi", "angle_radian = (cone_degree / 90) * np.pi")
M("theta-obtuse-branch", "C12", "vopy/utils/utils.py", "    if cone_degree <= 90:", "    if cone_degree <= 100:")
M("ice-no-normalise", "C12", "vopy/order.py", "            W[i] = W[i] / np.linalg.norm(W[i])", "            W[i] = W[i] / 1.0")
M("ice-radius-tan-theta", "C12", "vopy/order.py", "theta_rad = np.pi / 2 - np.radians(theta)", "theta_rad = np.radians(theta)")
M("ice-spacing", "C12", "vopy/order.py", "delta_angle = 2 * np.pi / K", "delta_angle = 2 * np.pi / (K + 1)")
M("c3d-acute-obtuse-swapped", "C12", "vopy/order.py", '        if cone_type == "acute":', '        if cone_type == "obtuse_":')
# ---- C16
M("emp-sample-variance", "C16", "vopy/models/empirical_mean_var.py", "np.diag(np.var(design, axis=0))", "np.diag(np.var(design, axis=0, ddof=1))")
M("emp-bound-check", "C16", "vopy/models/empirical_mean_var.py", "if max(indices) >= self.design_count:", "if max(indices) > self.design_count:")
M("emp-sorted-pairing", "C16", "vopy/models/empirical_mean_var.py", "for idx, y in zip(indices, Y_t):", "for idx, y in zip(sorted(indices), Y_t):")
M("emp-last-only", "C16", "vopy/models/empirical_mean_var.py", "[self.design_samples[idx], y.reshape(-1, self.output_dim)], axis=0", "[self.design_samples[idx][:0], y.reshape(-1, self.output_dim)], axis=0")
M("emp-var-threshold", "C16", "vopy/models/empirical_mean_var.py", "if len(design) > 1", "if len(design) > 2")
M("emp-clear-noop", "C16", "vopy/models/empirical_mean_var.py", "        self.design_samples = [np.empty((0, self.output_dim)) for _ in range(self.design_count)]", "        if not hasattr(self, 'design_samples'):\n            self.design_samples = [np.empty((0, self.output_dim)) for _ in range(self.design_count)]")
M("emp-partial-add-before-reject", "C16", "vopy/models/empirical_mean_var.py", "        if max(indices) >= self.design_count:\n            raise ValueError(\"Design index out of bounds.\")\n\n        for idx, y in zip(indices, Y_t):", "        for idx, y in zip(indices, Y_t):\n            if idx >= self.design_count:\n                raise ValueError(\"Design index out of bounds.\")")
# ---- C07
M("opt-argmin", "C07", "vopy/acquisition/acquisition.py", "best_idx = np.argmax(acq_values)", "best_idx = np.argmin(acq_values)")
M("opt-not-removed", "C07", "vopy/acquisition/acquisition.py", "choices = np.concatenate([choices[:best_idx], choices[best_idx + 1 :]])", "choices = np.concatenate([choices[:best_idx], choices[best_idx:]]) if best_idx == 0 else np.concatenate([choices[:best_idx], choices[best_idx + 1 :]])")
M("dec-opt-order", "C07", "vopy/acquisition/acquisition.py", "indices = indices[np.argsort(acq_values[indices])[::-1]]", "indices = indices[np.argsort(acq_values[indices])]")
M("dec-opt-index-not-restored", "C07", "vopy/acquisition/acquisition.py", "    acq.evaluation_index = saved_eval_i\n", "")
M("vogp-acq-all-designs", "C07", "vopy/algorithms/vogp.py", "active_pts = self.design_space.points[list(W)]", "active_pts = self.design_space.points")
M("vogp-y-misaligned", "C07", "vopy/algorithms/vogp.py", "self.model.add_sample(candidate_list, observations)", "self.model.add_sample(candidate_list, observations[::-1])")
M("maxdiag-stale-region", "C07", "vopy/acquisition/acquisition.py", "value[idx] = self.design_space.confidence_regions[design_i].diagonal()", "value[idx] = self.design_space.confidence_regions[indices[0]].diagonal() if idx == len(indices) - 1 and len(indices) > 2 else self.design_space.confidence_regions[design_i].diagonal()")
# ---- C06
M("vogp-no-early-return", "C06", "vopy/algorithms/vogp.py", "        if len(self.S) == 0:\n            return True\n\n        round_str", "        round_str")
M("partial-budget-gt", "C06", "vopy/algorithms/paveba_partial_gp.py", "return len(self.S) == 0 or self.total_cost >= self.cost_budget", "return len(self.S) == 0 or self.total_cost > self.cost_budget")
M("pavebagp-sample-count-batch", "C06", "vopy/algorithms/paveba_gp.py", "self.sample_count += len(candidate_list)", "self.sample_count += self.batch_size")
M("partial-cost-by-design", "C06", "vopy/algorithms/paveba_partial_gp.py", "self.total_cost += np.sum(self.costs[eval_indices])", "self.total_cost += np.sum(self.costs[eval_indices * 0])")
M("decoupled-round-not-incremented", "C06", "vopy/algorithms/decoupled.py", "        self.round += 1\n", "        self.round += 0\n")
M("naive-off-by-one", "C06", "vopy/algorithms/naive_elimination.py", "        return self.round == self.L\n", "        return self.round >= self.L - 1\n")
M("paveba-useful-not-subset", "C06", "vopy/algorithms/paveba.py", "                    self.U.add(pt)\n                    break", "                    self.U.add(pt_prime)\n                    break")
M("epal-P-readmits", "C06", "vopy/algorithms/epal.py", "        for pt in to_be_discarded:\n            self.S.remove(pt)", "        for pt in to_be_discarded:\n            self.S.remove(pt)\n            if self.round % 3 == 2:\n                self.P.add(pt)")
# ---- C02 / C03
M("paveba-discard-args-swapped", "C02", "vopy/algorithms/paveba.py", "if confidence_region_is_dominated(self.order, pt_conf, pt_p_conf, 0):", "if confidence_region_is_dominated(self.order, pt_p_conf, pt_conf, 0):")
M("pavebagp-discard-slack", "C02", "vopy/algorithms/paveba_gp.py", "if confidence_region_is_dominated(self.order, pt_conf, pt_p_conf, 0):", "if confidence_region_is_dominated(self.order, pt_conf, pt_p_conf, self.epsilon):")
M("vogp-witness-from-all", "C02", "vopy/algorithms/vogp.py", "            for pt_prime in pessimistic_set:", "            for pt_prime in self.S.union(self.P) - {pt}:")
M("vogp-discard-pessimistic-too", "C02", "vopy/algorithms/vogp.py", "difference = self.S.difference(pessimistic_set)", "difference = set(self.S)")
M("vogp-discard-no-slack", "C02", "vopy/algorithms/vogp.py", "if confidence_region_is_dominated(self.order, pt_conf, pt_p_conf, self.u_star_eps):", "if confidence_region_is_dominated(self.order, pt_conf, pt_p_conf, 0 * self.u_star_eps):")
M("epal-discard-neg-slack", "C02", "vopy/algorithms/epal.py", "if confidence_region_is_dominated(self.order, pt_conf, pt_p_conf, self.epsilon):", "if confidence_region_is_dominated(self.order, pt_conf, pt_p_conf, -self.epsilon):")
M("auer-discard-ge", "C02", "vopy/algorithms/auer.py", "if np.all(self.small_m(pt_conf.center, pt_p_conf.center) > beta):", "if np.any(self.small_m(pt_conf.center, pt_p_conf.center) > beta):")
M("auer-discard-own-width-only", "C02", "vopy/algorithms/auer.py", "                beta = pt_beta + pt_p_beta\n                if np.all(self.small_m", "                beta = pt_beta + pt_beta\n                if np.all(self.small_m")
M("paveba-cover-args-swapped", "C03", "vopy/algorithms/paveba.py", "                if confidence_region_is_covered(\n                    self.order, pt_conf, pt_p_conf, self.cone_alpha_eps\n                ):\n                    break", "                if confidence_region_is_covered(\n                    self.order, pt_p_conf, pt_conf, self.cone_alpha_eps\n                ):\n                    break")
M("pavebagp-cover-no-slack", "C03", "vopy/algorithms/paveba_gp.py", "        self.cone_alpha_eps = self.cone_alpha * self.epsilon", "        self.cone_alpha_eps = self.cone_alpha * self.epsilon * 0")
M("partial-useful-frozen", "C03", "vopy/algorithms/paveba_partial_gp.py", "    def useful_updating(self):\n        \"\"\"\n        Identify the designs that are decided to be Pareto, that would help with decisions of\n        other designs.\n        \"\"\"\n        self.U = set()", "    def useful_updating(self):\n        \"\"\"\n        Identify the designs that are decided to be Pareto, that would help with decisions of\n        other designs.\n        \"\"\"\n        self.U = set(self.U)")
M("vogp-cover-S-only", "C03", "vopy/algorithms/vogp.py", "    def epsiloncovering(self):\n        \"\"\"\n        Identify and remove designs from `S` that are not covered by the confidence region of\n        other designs, adding them to `P` as Pareto-optimal.\n        \"\"\"\n        W = self.S.union(self.P)", "    def epsiloncovering(self):\n        \"\"\"\n        Identify and remove designs from `S` that are not covered by the confidence region of\n        other designs, adding them to `P` as Pareto-optimal.\n        \"\"\"\n        W = set(self.S)")
M("auer-holdback-strict", "C03", "vopy/algorithms/auer.py", "if np.all(self.big_m(pt_conf.center, p1_pt_conf.center) <= beta):", "if np.all(self.big_m(pt_conf.center, p1_pt_conf.center) <= 0 * beta):")
M("auer-P1-eps-dropped", "C03", "vopy/algorithms/auer.py", "return max(0, np.max((i + self.epsilon) - j))", "return max(0, np.max(i - j))")
# ---- C01 / C05
M("paveba-discard-against-P", "C01", "vopy/algorithms/paveba.py", "        A = self.S.union(self.U)\n\n        to_be_discarded = []", "        A = self.S.union(self.P)\n\n        to_be_discarded = []")
M("paveba-cover-slack-negated", "C01", "vopy/algorithms/paveba.py", "self.cone_alpha_eps = self.cone_alpha * self.epsilon", "self.cone_alpha_eps = -self.cone_alpha * self.epsilon")
M("paveba-cover-slack-doubled", "C01", "vopy/algorithms/paveba.py", "self.cone_alpha_eps = self.cone_alpha * self.epsilon", "self.cone_alpha_eps = 2 * self.cone_alpha * self.epsilon")
M("auer-bigm-sign", "C01", "vopy/algorithms/auer.py", "return max(0, np.max((i + self.epsilon) - j))", "return max(0, np.max((i + 3 * self.epsilon) - j))")
M("vogp-ustar-replaced", "C05", "vopy/algorithms/vogp.py", "self.u_star_eps = self.u_star * epsilon", "self.u_star_eps = self.u_star * epsilon * 2.5")
M("vogp-discard-double-slack", "C05", "vopy/algorithms/vogp.py", "if confidence_region_is_dominated(self.order, pt_conf, pt_p_conf, self.u_star_eps):", "if confidence_region_is_dominated(self.order, pt_conf, pt_p_conf, 3 * self.u_star_eps):")
M("epal-cover-S-only", "C05", "vopy/algorithms/epal.py", "        W = self.S.union(self.P)\n\n        new_pareto_pts = []", "        W = set(self.S)\n\n        new_pareto_pts = []")
M("pavebagp-acq-on-S-only", "C07", "vopy/algorithms/paveba_gp.py", "        A = self.S.union(self.U)\n        acq = SumVarianceAcquisition(self.model)", "        A = set(self.S)\n        acq = SumVarianceAcquisition(self.model)")
M("partial-cost-ignored", "C07", "vopy/acquisition/acquisition.py", "            value = value / self.costs[self.evaluation_index]\n        return value\n\n\nclass ThompsonEntropy", "            value = value / 1.0\n        return value\n\n\nclass ThompsonEntropy")
M("paveba-evaluates-S-only", "C07", "vopy/algorithms/paveba.py", "        A = self.S.union(self.U)\n        active_pts = self.design_space.points[list(A)]\n\n        observations", "        A = set(self.S)\n        active_pts = self.design_space.points[list(A)]\n\n        observations")
