#!/bin/bash
# quietness sweep: every quick check at the given seeds on the unchanged tree; prints one line per run
cd "$(dirname "$0")/.."
for seed in "$@"; do
  for i in $(seq -w 1 20); do
    out=$(VERIF_SEED=$seed VERIF_EVIDENCE_DIR=/tmp/quiet_ev ./check C$i quick 2>&1 | grep -v "^WARN")
    rc=$?
    echo "seed=$seed $(echo "$out" | tail -1 | cut -c1-220)"
    echo "$out" | grep -E "VIOLATION|HARNESS|signature" | cut -c1-400
  done
done
