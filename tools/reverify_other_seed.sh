#!/bin/bash
# robustness of detection: re-run every seeded change's own-property check at another VERIF_SEED (nothing recorded in meta.json)
# usage: tools/reverify_other_seed.sh <VERIF_SEED> [name-prefix]   -> prints caught / MISSED per seeded change
cd "$(dirname "$0")/.."
export VERIF_SEED=$1 SEED_EVAL_NO_RECORD=1
for d in seeded/C*/; do
  n=$(basename $d)
  [ -n "$2" ] && [[ "$n" != $2* ]] && continue
  /venv/bin/python tools/seed_eval.py check $n $(jq -r .property $d/meta.json) 2>&1 | grep -E "caught|MISSED|HARNESS" | cut -c1-160
done
