#!/usr/bin/env python3
"""Evaluate a seeded breakage written by an independent sub-agent.

  tools/seed_eval.py import <name> <worktree> <Cxx> [--needs "..."]   # confirm demo fails/passes, store under seeded/<name>/
  tools/seed_eval.py suite  <name>                                    # run the repository's test-suite on a scratch worktree with the patch
  tools/seed_eval.py check  <name> [Cxx ...] [--tier quick] [--via-repo]
        # run our checks against the patch: scratch worktree + VERIF_REPO (default) or, with --via-repo,
        # `git -C /repo apply`, run, `git -C /repo checkout -- .` (only when nothing else is using /repo)
"""
import json
import os
import shutil
import subprocess
import sys
import tempfile
import time

HERE = os.path.dirname(os.path.dirname(os.path.abspath(__file__)))
PY = "/venv/bin/python"


def sh(cmd, **kw):
    return subprocess.run(cmd, shell=isinstance(cmd, str), stdout=subprocess.PIPE, stderr=subprocess.STDOUT, text=True, **kw)


def scratch_with_patch(patch):
    wt = tempfile.mkdtemp(prefix="seedwt_", dir="/tmp")
    os.rmdir(wt)
    r = sh(["git", "-C", "/repo", "worktree", "add", "-q", "--detach", wt, "HEAD"])
    if r.returncode:
        raise SystemExit(r.stdout)
    shutil.copy("/repo/vopy/version.py", os.path.join(wt, "vopy", "version.py"))
    r = sh(["git", "-C", wt, "apply", patch])
    if r.returncode:
        sh(["git", "-C", "/repo", "worktree", "remove", "--force", wt])
        raise SystemExit("patch does not apply to /repo HEAD: " + r.stdout)
    return wt


def drop(wt):
    sh(["git", "-C", "/repo", "worktree", "remove", "--force", wt])
    shutil.rmtree(wt, ignore_errors=True)


def cmd_import(name, wt, pid, needs):
    d = os.path.join(HERE, "seeded", name)
    os.makedirs(d, exist_ok=True)
    diff = sh(["git", "-C", wt, "diff", "--", "vopy"]).stdout
    if not diff.strip():
        raise SystemExit("no diff in worktree")
    open(os.path.join(d, "patch.diff"), "w").write(diff)
    demo = [f for f in os.listdir(wt) if f.startswith("demo_") and f.endswith(".py")]
    if not demo:
        raise SystemExit("no demo script")
    shutil.copy(os.path.join(wt, demo[0]), os.path.join(d, demo[0]))
    env = dict(os.environ, PYTHONPATH=wt, PYTHONWARNINGS="ignore", OMP_NUM_THREADS="1", MKL_NUM_THREADS="1")
    t0 = time.time()
    r1 = sh([PY, demo[0]], cwd=wt, env=env)
    # unmodified code: reverse-apply the patch (git stash is shared between worktrees - never use it here)
    pfile = os.path.join(d, "patch.diff")
    sh(["git", "-C", wt, "apply", "-R", pfile])
    try:
        r0 = sh([PY, demo[0]], cwd=wt, env=env)
    finally:
        sh(["git", "-C", wt, "apply", pfile])
    meta = {"name": name, "property": pid, "demo": demo[0], "needs_to_manifest": needs,
            "demo_with_patch_rc": r1.returncode, "demo_without_patch_rc": r0.returncode,
            "demo_with_patch_tail": r1.stdout[-600:], "demo_without_patch_tail": r0.stdout[-300:],
            "files_changed": [l[6:] for l in diff.splitlines() if l.startswith("+++ b/")],
            "ran": [f"cd {wt} && PYTHONPATH={wt} {PY} {demo[0]}  (with patch, then after git stash)"], "checks": {}}
    json.dump(meta, open(os.path.join(d, "meta.json"), "w"), indent=1)
    print(f"{name}: demo rc with patch {r1.returncode}, without {r0.returncode} ({time.time() - t0:.0f}s); files {meta['files_changed']}")


def cmd_suite(name):
    d = os.path.join(HERE, "seeded", name)
    wt = scratch_with_patch(os.path.join(d, "patch.diff"))
    try:
        t0 = time.time()
        r = sh(f"cd {wt} && OMP_NUM_THREADS=1 MKL_NUM_THREADS=1 PYTHONPATH={wt} {PY} -m pytest -q -p no:cacheprovider -n 6 --timeout=900 test 2>&1 | tail -3")
        tail = r.stdout.strip().splitlines()[-1] if r.stdout.strip() else ""
        meta = json.load(open(os.path.join(d, "meta.json")))
        meta["suite_with_patch"] = tail
        meta["ran"].append("scratch worktree of /repo HEAD + patch: /venv/bin/python -m pytest -q -p no:cacheprovider -n 6 --timeout=900 test")
        json.dump(meta, open(os.path.join(d, "meta.json"), "w"), indent=1)
        print(f"{name}: suite: {tail} ({time.time() - t0:.0f}s)")
    finally:
        drop(wt)


def cmd_check(name, pids, tier, via_repo):
    d = os.path.join(HERE, "seeded", name)
    meta = json.load(open(os.path.join(d, "meta.json")))
    pids = pids or [meta["property"]]
    patch = os.path.join(d, "patch.diff")
    tmp = tempfile.mkdtemp(prefix="seedev_", dir="/tmp")
    env = dict(os.environ, VERIF_EVIDENCE_DIR=os.path.join(tmp, "ev"), VERIF_REPLAY_DIR=os.path.join(tmp, "rp"), VERIF_SHRINK_S="20")
    wt = None
    try:
        if via_repo:
            r = sh(["git", "-C", "/repo", "apply", patch])
            if r.returncode:
                raise SystemExit(r.stdout)
        else:
            wt = scratch_with_patch(patch)
            env["VERIF_REPO"] = wt
        for pid in pids:
            t0 = time.time()
            r = sh([os.path.join(HERE, "check"), pid, tier], env=env, cwd=HERE)
            sigs = [l.strip()[:400] for l in r.stdout.splitlines() if l.strip().startswith("signature:")]
            status = {0: "MISSED", 1: "caught", 2: "HARNESS-ERROR"}.get(r.returncode, str(r.returncode))
            meta["checks"][f"{pid}:{tier}"] = {"result": status, "seconds": round(time.time() - t0), "signatures": sigs[:4],
                                               "how": "git -C /repo apply + ./check + git checkout" if via_repo else "scratch worktree + VERIF_REPO"}
            print(f"{name}: ./check {pid} {tier} -> {status} ({time.time() - t0:.0f}s)")
            for s in sigs[:3]:
                print("    ", s[:300])
            if r.returncode == 2:
                print(r.stdout[-1500:])
    finally:
        if via_repo:
            sh(["git", "-C", "/repo", "checkout", "--", "."])
        if wt:
            drop(wt)
        shutil.rmtree(tmp, ignore_errors=True)
    if not os.environ.get("SEED_EVAL_NO_RECORD"):  # robustness sweeps at other VERIF_SEED values only print
        json.dump(meta, open(os.path.join(d, "meta.json"), "w"), indent=1)


def main():
    a = sys.argv[1:]
    if a[0] == "import":
        needs = a[a.index("--needs") + 1] if "--needs" in a else ""
        cmd_import(a[1], a[2], a[3], needs)
    elif a[0] == "suite":
        cmd_suite(a[1])
    elif a[0] == "check":
        tier = a[a.index("--tier") + 1] if "--tier" in a else "quick"
        pids = [x for x in a[2:] if x.startswith("C") and len(x) == 3]
        cmd_check(a[1], pids, tier, "--via-repo" in a)


if __name__ == "__main__":
    main()
