#!/bin/bash
# re-run every seeded change against the CURRENT checks: for each seeded/<name>/meta.json the checks that caught it
# before (or, if none did, its own property's check) are run again through tools/seed_eval.py (scratch worktree + VERIF_REPO)
cd "$(dirname "$0")/.."
for d in seeded/C*/; do
  n=$(basename $d)
  [ -n "$1" ] && [[ "$n" != $1* ]] && continue
  props=$(jq -r '[.checks | to_entries[] | select(.value.result=="caught") | .key | split(":")[0]] | unique | join(" ")' $d/meta.json)
  [ -z "$props" ] && props=$(jq -r .property $d/meta.json)
  /venv/bin/python tools/seed_eval.py check $n $props 2>&1 | grep -E "caught|MISSED|HARNESS" | cut -c1-160
done
