#!/usr/bin/env python3
"""Print the table of components as built (for DESIGN.md section 3.1)."""
import importlib
import os
import sys

sys.path.insert(0, os.path.dirname(os.path.dirname(os.path.abspath(__file__))))
print("| property | component | kind | quick | thorough | atheris |")
print("|---|---|---|---|---|---|")
for i in range(1, 21):
    pid = f"C{i:02d}"
    mod = importlib.import_module(f"vverif.props.{pid}")
    for c in mod.COMPONENTS:
        kind = "enumerated" if c.enumerate else "generated"
        print(f"| {pid} | {c.name} | {kind} | {'all' if c.enumerate else c.quick} | {'all' if c.enumerate else c.thorough} | {c.fuzz_runs * 8 if c.fuzz_runs else ''} |")
