#!/bin/bash
# Offline setup: make sure hypothesis (and, optionally, atheris) import under /venv/bin/python.
HERE="$(cd "$(dirname "${BASH_SOURCE[0]}")" && pwd)"
cd "$HERE" || exit 1
PY="${VERIF_PY:-/venv/bin/python}"
export PIP_NO_INDEX=1
mkdir -p .deps
if ! PYTHONPATH="$HERE/.deps" "$PY" -c "import hypothesis" 2>/dev/null; then
  "$PY" -m pip install --no-index --find-links /opt/veriftools/wheels --target "$HERE/.deps" hypothesis || exit 1
fi
if ! PYTHONPATH="$HERE/.deps" "$PY" -c "import atheris" 2>/dev/null; then
  "$PY" -m pip install --no-index --find-links /opt/veriftools/wheels --target "$HERE/.deps" atheris >/dev/null 2>&1 || echo "note: atheris not installed (optional adjunct skipped)"
fi
PYTHONPATH="$HERE/.deps" "$PY" -c "import hypothesis; print('hypothesis', hypothesis.__version__)"
