"""./check entry point: shards components over worker processes, merges statistics, writes
evidence, applies the known-findings file and the exit protocol.

exit 0 = property held on everything explored (KNOWN-FINDING lines allowed)
exit 1 = `VIOLATION property=<id> replay=<path>` printed for an unlisted violation
exit 2 = harness error (never a VIOLATION line)
"""
from __future__ import annotations

import hashlib
import json
import math
import os
import shutil
import subprocess
import sys
import time
import zlib
from concurrent.futures import ThreadPoolExecutor

from vverif.core import HERE, HarnessError, canon, load_known, load_property, run_check

NCPU = int(os.environ.get("VERIF_JOBS", "16"))


def derive_seed(base: int, *parts) -> int:
    return zlib.crc32(("|".join(map(str, (base,) + parts))).encode()) & 0x7FFFFFFF


class Pool:
    def __init__(self, n):
        import multiprocessing as mp
        from concurrent.futures import ProcessPoolExecutor

        from vverif import worker

        self.worker = worker
        self.ex = ProcessPoolExecutor(max(1, n), mp_context=mp.get_context("spawn"), initializer=worker.init)

    def run(self, jobs):
        from concurrent.futures.process import BrokenProcessPool

        outs = []
        futs = []
        try:
            futs = [self.ex.submit(self.worker.run, j) for j in jobs]
        except BrokenProcessPool as e:
            return [{"job": None, "error": f"worker pool broken: {e}"}]
        for j, f in zip(jobs, futs):
            try:
                outs.append(f.result())
            except BrokenProcessPool as e:
                outs.append({"job": j, "error": f"worker process died: {e}"})
        return outs

    def close(self):
        self.ex.shutdown(wait=False, cancel_futures=True)


def _strip_prop(text):
    toks = text.split()
    return " ".join(t for i, t in enumerate(toks) if not (i == 0 and t.startswith("property=")))


def replay(path):
    d = json.load(open(path))
    pid = d["property"]
    mod = load_property(pid)
    comp = {c.name: c for c in mod.COMPONENTS}[d["component"]]
    try:
        r = run_check(comp, d["case"])
    except HarnessError as e:
        print(f"HARNESS-ERROR: {e}")
        return 2
    print(f"replay property={pid} component={comp.name} status={r.status} sig={r.sig}")
    if r.detail:
        print("  " + r.detail)
    if r.status == "violation":
        open_, _ = load_known(pid)
        for k in open_:
            if k.get("sig") == r.sig:
                print(f"KNOWN-FINDING: property={pid} {_strip_prop(k['text'])}")
                return 0
        print(f"VIOLATION property={pid} replay={path}")
        return 1
    return 0


def main(argv):
    if len(argv) >= 2 and argv[0] == "--replay":
        return replay(argv[1])
    if len(argv) < 1:
        print("usage: check <Cxx> <quick|thorough> | --replay <file>")
        return 2
    pid = argv[0]
    tier = argv[1] if len(argv) > 1 else os.environ.get("VERIF_TIER", "quick")
    if tier not in ("quick", "thorough"):
        print("tier must be quick|thorough")
        return 2
    base_seed = int(os.environ.get("VERIF_SEED", "1") or 1)
    budget = float(os.environ.get("VERIF_BUDGET_S", "420" if tier == "quick" else "5400"))
    shrink_budget = float(os.environ.get("VERIF_SHRINK_S", "60" if tier == "quick" else "280"))
    only = os.environ.get("VERIF_ONLY")  # debugging: restrict to one component
    scale = float(os.environ.get("VERIF_SCALE", "1"))
    t0 = time.time()
    py = sys.executable
    try:
        mod = load_property(pid)
    except Exception as e:  # noqa: BLE001
        print(f"HARNESS-ERROR: cannot load property module {pid}: {type(e).__name__}: {e}")
        return 2
    open_known, _fixed = load_known(pid)
    known_sigs = [k["sig"] for k in open_known if "sig" in k]

    deadline = t0 + budget
    jobs = []
    if os.path.isdir(os.path.join(HERE, "regress", pid)):
        jobs.append({"pid": pid, "kind": "regress", "component": "regress", "tier": tier, "known_sigs": known_sigs})
    comps = [c for c in mod.COMPONENTS if not only or c.name == only]
    for c in comps:
        n = max(1, int((c.quick if tier == "quick" else c.thorough) * scale))
        if c.enumerate is not None:
            ns = min(c.max_shards, 2 * NCPU)
            for s in range(ns):
                jobs.append(
                    dict(pid=pid, kind="enumerate", component=c.name, tier=tier, shard=s, nshards=ns,
                         deadline=deadline, known_sigs=known_sigs)
                )
        if c.strategy is not None:
            ns = max(1, min(c.max_shards, 2 * NCPU, n // 8 or 1))
            per = math.ceil(n / ns)
            for s in range(ns):
                jobs.append(
                    dict(pid=pid, kind="survey", component=c.name, tier=tier, shard=s, nshards=ns,
                         n=per, seed=derive_seed(base_seed, pid, c.name, s), deadline=deadline,
                         shrink_budget_s=shrink_budget, known_sigs=known_sigs)
                )
    if tier == "thorough" and not os.environ.get("VERIF_NO_FUZZ"):
        for c in comps:
            if c.fuzz_runs and c.strategy is not None:
                for sh in range(8):
                    jobs.append(dict(pid=pid, kind="fuzz", component=c.name + "@atheris", tier=tier, shard=sh, nshards=8,
                                     n=max(50, int(c.fuzz_runs * scale)), seed=derive_seed(base_seed, pid, c.name, "fuzz", sh) % 100000 + 1,
                                     deadline=deadline, known_sigs=known_sigs))
    # longest jobs first is unknown; just interleave components so shards of a slow one spread out
    pool = Pool(min(NCPU, len(jobs)))
    outs = pool.run(jobs)

    errors = [o["error"] for o in outs if o.get("error")]
    errors = list(dict.fromkeys(errors))
    per_comp = {}
    tot = dict(evals=0, status={}, labels={}, nontrivial=set(), samples=[], viol={}, inconclusive=False)
    for o in outs:
        st = o.get("stats")
        if not st:
            continue
        cname = o["job"]["component"]
        pc = per_comp.setdefault(cname, dict(evals=0, nontrivial=set(), status={}, labels={}))
        pc["evals"] += st["evals"]
        pc["nontrivial"].update(cname + ":" + h for h in st["nontrivial"])
        for k, v in st["status"].items():
            pc["status"][k] = pc["status"].get(k, 0) + v
            tot["status"][k] = tot["status"].get(k, 0) + v
        for k, v in st["labels"].items():
            pc["labels"][k] = pc["labels"].get(k, 0) + v
        tot["evals"] += st["evals"]
        tot["nontrivial"].update(cname + ":" + h for h in st["nontrivial"])
        if len(tot["samples"]) < 8:
            for s in st["samples"][:1]:
                tot["samples"].append({"component": cname, "case": s})
        tot["inconclusive"] |= st["inconclusive"]
        for sig, v in st["viol"].items():
            cur = tot["viol"].setdefault(sig, dict(count=0, size=1 << 60, component=cname))
            cur["count"] += v["count"]
            if v["size"] < cur["size"]:
                cur.update(size=v["size"], case=v["case"], detail=v.get("detail", ""), component=cname,
                           seed=v.get("seed"), n=v.get("n"))

    rc = 0
    known_seen, new_viol = {}, {}
    for sig, v in tot["viol"].items():
        if sig in known_sigs:
            known_seen[sig] = v
        else:
            new_viol[sig] = v
    # shrink each new signature once (in parallel), re-running the seeded search that found it
    sj = [dict(pid=pid, kind="shrink", component=v["component"], sig=sig, seed=v["seed"], n=v["n"],
               shrink_budget_s=shrink_budget, tier=tier)
          for sig, v in sorted(new_viol.items())[:6] if v.get("seed") is not None]
    if sj:
        for o in pool.run(sj):
            if o.get("error"):
                errors.append(o["error"])
            elif o.get("shrink"):
                v = new_viol[o["job"]["sig"]]
                v.update(case=o["shrink"]["case"], detail=o["shrink"]["detail"], shrunk=o["shrink"]["shrunk"])
    pool.close()
    for k in open_known:
        seen = known_seen.get(k.get("sig"))
        note = f"(reproduced {seen['count']}x this run)" if seen else "(not exercised this run)"
        print(f"KNOWN-FINDING: property={pid} {_strip_prop(k['text'])} {note}")
    replay_paths = []
    if new_viol:
        rdir = os.path.join(os.environ.get("VERIF_REPLAY_DIR", os.path.join(HERE, "replays")), pid)
        os.makedirs(rdir, exist_ok=True)
        for sig, v in sorted(new_viol.items()):
            h = hashlib.blake2b(sig.encode(), digest_size=5).hexdigest()
            path = os.path.join(rdir, f"{v['component']}-{h}.json")
            with open(path, "w") as f:
                json.dump(
                    dict(property=pid, component=v["component"], sig=sig, detail=v.get("detail", ""),
                         count=v["count"], seed=base_seed, tier=tier, case=v["case"]), f, indent=1,
                )
            replay_paths.append(path)
            print(f"  signature: {sig}  x{v['count']}  {v.get('detail', '')[:400]}")
            print(f"VIOLATION property={pid} replay={os.path.relpath(path, HERE)}")
        rc = 1
    if errors:
        for e in errors[:5]:
            print("HARNESS-ERROR:", e[-1500:])
        rc = 2

    wall = time.time() - t0
    rule = getattr(mod, "RULE", "") + " | " + " ; ".join(
        f"{c.name}: {c.rule}" for c in comps if c.rule
    )
    ev = {
        "property_id": pid,
        "tier": tier,
        "seed": base_seed,
        "level": "exploration",
        "coverage": {
            "evaluations": tot["evals"],
            "distinct_nontrivial": len(tot["nontrivial"]),
            "rule": rule,
            "samples": tot["samples"] or [{"note": "no non-trivial sample recorded"}],
            "status_counts": tot["status"],
            "per_component": {
                k: dict(evaluations=v["evals"], distinct_nontrivial=len(v["nontrivial"]),
                        status=v["status"], labels=dict(sorted(v["labels"].items())))
                for k, v in per_comp.items()
            },
            "known_findings_excluded": {s: v["count"] for s, v in known_seen.items()},
            "new_violation_signatures": {s: v["count"] for s, v in new_viol.items()},
            "inconclusive_budget_hit": tot["inconclusive"],
            "exhaustive": False,
        },
        "assumptions": list(getattr(mod, "ASSUMPTIONS", [])),
        "wall_s": round(wall, 2),
        "violations": len(new_viol),
    }
    if rc != 2:
        evdir = os.environ.get("VERIF_EVIDENCE_DIR", os.path.join(HERE, "evidence"))
        os.makedirs(evdir, exist_ok=True)
        with open(os.path.join(evdir, f"{pid}.json"), "w") as f:
            json.dump(ev, f, indent=1, default=str)
    print(
        f"{pid} {tier} seed={base_seed}: {tot['evals']} cases, {len(tot['nontrivial'])} distinct "
        f"non-trivial, status={tot['status']}, new violations={len(new_viol)}, "
        f"known={len(known_seen)}, {wall:.1f}s" + (" [budget hit: inconclusive remainder]" if tot["inconclusive"] else "")
    )
    return rc


if __name__ == "__main__":
    sys.exit(main(sys.argv[1:]))
