"""C14 - displayed confidence regions are exactly the model's prediction scaled."""
from __future__ import annotations

import numpy as np
from hypothesis import strategies as st

from vverif import gen
from vverif.core import Component, Result
from vverif.harness import data as hdata
from vverif.harness import models as hm

RULE = ("history = generated list of design_space.update(model, scale form, index subset) calls (subset size 1..N in any order, scalar / "
        "per-objective / per-design scales) on FixedPointsDesignSpace and AdaptivelyDiscretizedDesignSpace with stub, empirical and the three "
        "GP model classes; oracle = model.predict on the full design matrix (stub: its known values) -> centre, scale x std half-widths / "
        "(centre, covariance, radius); untouched regions bit-identical; plus region-level iterative-intersection sequences. non-trivial = "
        "subset of size 1, or a permuted subset, or a per-design scale, or >=3 updates")
ASSUMPTIONS = ["GP predictions of a subset vs the full matrix may differ by batching round-off: 1e-7 relative; stub/empirical 1e-12",
               "iterative intersection: touching rectangles (overlap margin within 1e-12 relative) may give either outcome"]


class StubModel:
    """Known per-design mean and covariance; designs identified by exact row match."""

    def __init__(self, points, means, covs):
        self.points = np.asarray(points, float)
        self.means = np.asarray(means, float)
        self.covs = np.asarray(covs, float)

    def _idx(self, X):
        X = np.asarray(X, float)
        d2 = ((X[:, None, :] - self.points[None, :, :]) ** 2).sum(-1)
        return d2.argmin(axis=1)

    def predict(self, X):
        i = self._idx(X)
        return self.means[i].copy(), self.covs[i].copy()

    def add_sample(self, *a):
        pass

    def update(self):
        pass

    def train(self):
        pass


def _snapshot(ds, kind):
    if kind == "rect":
        return [(r.lower.copy(), r.upper.copy()) for r in ds.confidence_regions]
    return [(np.array(r.center, float).copy(), np.array(r.sigma, float).copy(), float(np.asarray(r.alpha))) for r in ds.confidence_regions]


def _same(a, b):
    return all(np.array_equal(x, y) for x, y in zip(a, b))


def _build_model(case, points, m):
    mk = case["model"]
    N, d = points.shape
    if mk["kind"] == "stub":
        means = np.array(mk["means"], float).reshape(N, m) * float(mk.get("mean_scale", 1.0))
        covs = []
        for i in range(N):
            A = np.array(mk["A"][i], float).reshape(m, m)
            covs.append((A @ A.T + np.diag(mk["diag"][i])) * float(mk.get("cov_scale", 1.0)))
        return StubModel(points, means, np.array(covs)), None, 1e-12
    if mk["kind"] == "emp":
        from vopy.models import EmpiricalMeanVarModel

        model = EmpiricalMeanVarModel(d - 1, m, mk["noise_var"], N, track_variances=mk["track_vars"])
        for idx, Y in mk["adds"]:
            idx = [i % N for i in idx]
            model.add_sample(idx, np.array(Y, float).reshape(len(idx), m))
        model.update()
        return model, None, 1e-12
    kind = mk["kind"]
    model = hm.new_model(kind, d, m, mk["noise"])
    X = np.array(mk["X"], float).reshape(-1, d)
    if kind == "list":
        for j in range(m):
            model.add_sample(X, np.array(mk["Y"], float).reshape(-1, m)[:, j], j)
    else:
        model.add_sample(X, np.array(mk["Y"], float).reshape(-1, m))
    model.update()
    hm.set_hypers(model, kind, mk["hyp"])
    return model, kind, 1e-7


def check_update_history(case):
    from vopy.design_space import AdaptivelyDiscretizedDesignSpace, FixedPointsDesignSpace

    m, ctype = case["m"], case["ctype"]
    labels = [f"space={case['space']}", f"conf={ctype}", "model=" + case["model"]["kind"]]
    if case["space"] == "fixed":
        points = np.array(case["points"], float)
        if case["model"]["kind"] == "emp":
            points = np.hstack([points, np.arange(len(points))[:, None]])
        ds = FixedPointsDesignSpace(points, m, confidence_type="hyperrectangle" if ctype == "rect" else "hyperellipsoid")
    else:
        d = case["d"]
        ds = AdaptivelyDiscretizedDesignSpace(d, m, delta=0.1, max_depth=4)
        for k in case["refine"]:
            leaves = [i for i in range(len(ds.points)) if ds.point_depths[i] < ds.max_depth]
            if not leaves:
                break
            ds.refine_design(leaves[k % len(leaves)])
        points = np.array(ds.points, float)
    N = len(points)
    model, gpkind, tol = _build_model(case, points, m)
    if N >= 2 or case["model"]["kind"] != "stub":
        fm, fc = model.predict(points.copy()) if N >= 2 else (None, None)
    if N == 1:
        if case["model"]["kind"] == "stub":
            fm, fc = model.means.copy(), model.covs.copy()
        else:
            # reference for a one-design space: predict the design twice (N>=2 path) and keep one row
            fm, fc = model.predict(np.vstack([points, points]))
            fm, fc = np.asarray(fm)[:1], np.asarray(fc)[:1]
    fm, fc = np.asarray(fm, float).reshape(N, m), np.asarray(fc, float).reshape(N, m, m)
    nt = False
    n_upd = 0
    for op in case["ops"]:
        idx = [i % N for i in op["idx"]]
        seen = set()
        idx = [i for i in idx if not (i in seen or seen.add(i))]
        if op.get("all"):
            idx_arg, idx = None, list(range(N))
        else:
            idx_arg = list(idx)
        form = op["form"]
        if ctype == "ell":
            form = "scalar" if form == "vector" else form
        if form == "scalar":
            scale = np.array(float(op["s"][0]))
            smat = np.full((len(idx), m), float(op["s"][0]))
        elif form == "vector":
            v = (op["s"] * m)[:m]
            scale = np.array(v, float)
            smat = np.tile(scale, (len(idx), 1))
        else:
            vals = (op["s"] * (len(idx) * m))
            if ctype == "ell":
                smat = np.array(vals[: len(idx)], float).reshape(len(idx), 1)
                scale = smat.copy()
                smat = np.tile(smat, (1, m))
            else:
                smat = np.array(vals[: len(idx) * m], float).reshape(len(idx), m)
                scale = smat.copy()
            labels.append("per-design-scale")
            nt = True
        before = _snapshot(ds, ctype)
        ds.update(model, scale, idx_arg)
        after = _snapshot(ds, ctype)
        n_upd += 1
        if len(idx) == 1:
            labels.append("subset-size-1")
            nt = True
        if idx != sorted(idx):
            labels.append("permuted-subset")
            nt = True
        for i in range(N):
            if i not in idx:
                if not _same(before[i], after[i]):
                    return Result.violation(f"C14:{ctype}:untouched-region-changed", f"design {i} changed by update of {idx}", labels)
                continue
            k = idx.index(i)
            mu, cov = fm[i], fc[i]
            # purely relative: mean -/+ scale*std is exact up to an ulp of the larger of the two terms
            sc = max(1e-300, float(np.abs(mu).max()), float(np.abs(smat[k]).max() * np.sqrt(np.abs(np.diag(cov)).max())))
            if ctype == "rect":
                half = np.sqrt(np.diag(cov)) * smat[k]
                lo, up = after[i]
                if lo.shape != (m,) or up.shape != (m,):
                    return Result.violation(f"C14:rect:shape", f"design {i}: lower {lo.shape} upper {up.shape}", labels)
                if np.any(lo > up):
                    return Result.violation("C14:rect:lower>upper", f"design {i}: {lo.tolist()} {up.tolist()}", labels)
                if np.max(np.abs((lo + up) / 2 - mu)) > tol * sc:
                    return Result.violation("C14:rect:centre" + (":single-index" if len(idx) == 1 else ""),
                                            f"design {i} (update of {idx}, scale form {form}): centre {((lo + up) / 2).tolist()} "
                                            f"but model mean {mu.tolist()}", labels)
                if np.max(np.abs((up - lo) / 2 - half)) > tol * sc:
                    return Result.violation("C14:rect:half-width" + (":single-index" if len(idx) == 1 else ""),
                                            f"design {i} (update of {idx}, scale {smat[k].tolist()}): half-widths {((up - lo) / 2).tolist()} "
                                            f"expected scale*std {half.tolist()}", labels)
            else:
                c, S, a = after[i]
                if np.max(np.abs(c - mu)) > tol * sc or np.max(np.abs(S - cov)) > tol * max(1e-300, np.abs(cov).max()) or abs(a - smat[k][0]) > 1e-12 * max(1, abs(a)):
                    return Result.violation("C14:ell:centre-cov-radius" + (":single-index" if len(idx) == 1 else ""),
                                            f"design {i} (update of {idx}): centre {np.asarray(c).tolist()} cov {np.asarray(S).tolist()} radius {a}; "
                                            f"model mean {mu.tolist()} cov {cov.tolist()} scale {smat[k][0]}", labels)
    if n_upd >= 3:
        nt = True
    return Result.ok(sorted(set(labels)), nt)


def check_iterative(case):
    from vopy.confidence_region import RectangularConfidenceRegion

    m = case["m"]
    n = int(case.get("n_regions", 1))
    if case.get("shared_prior"):
        # several regions constructed from one prior box (the adaptive design space hands a parent's bound arrays to all of
        # its children in the same way): an update of one region must not move the others
        lo0, hi0 = np.full(m, -float(case["shared_prior"])), np.full(m, float(case["shared_prior"]))
        regs = [RectangularConfidenceRegion(m, lo0, hi0, True) for _ in range(n)]
    else:
        regs = [RectangularConfidenceRegion(m, intersect_iteratively=True) for _ in range(n)]
    state = [(r.lower.copy(), r.upper.copy()) for r in regs]
    labels = [f"m={m}"] + (["regions-share-prior-box"] if case.get("shared_prior") and n > 1 else [])
    nt = False
    for upd in case["updates"]:
        mean, std, s = upd[0], upd[1], upd[2]
        k = (upd[3] % n) if len(upd) > 3 else 0
        R = regs[k]
        lo, up = state[k]
        mean, std = np.array(mean, float), np.array(std, float)
        cov = np.diag(std**2)
        if case.get("full_cov"):
            cov = cov + 0.0
            cov[0, -1] = cov[-1, 0] = 0.3 * std[0] * std[-1]
        sc = np.array(s, float) if isinstance(s, list) else np.array(float(s))
        L, U = mean - np.sqrt(np.diag(cov)) * sc, mean + np.sqrt(np.diag(cov)) * sc
        R.update(mean, cov, sc)
        gap = np.minimum(up, U) - np.maximum(lo, L)  # >0 in every coordinate: overlap
        scale = max(1.0, float(np.abs(np.concatenate([L, U])).max()))
        tol = 1e-12 * scale
        inter = (np.maximum(lo, L), np.minimum(up, U))
        new = (L, U)
        close = lambda a, b: np.allclose(a[0], b[0], rtol=0, atol=1e-12 * scale) and np.allclose(a[1], b[1], rtol=0, atol=1e-12 * scale)  # noqa: E731
        got = (R.lower, R.upper)
        if np.any(R.lower > R.upper):
            return Result.violation("C14:iter:lower>upper", f"{R.lower.tolist()} {R.upper.tolist()}", labels)
        if np.all(gap > tol):
            if not close(got, inter):
                return Result.violation("C14:iter:not-intersection", f"prev [{lo.tolist()},{up.tolist()}] new [{L.tolist()},{U.tolist()}] got [{R.lower.tolist()},{R.upper.tolist()}]", labels)
            labels.append("overlap")
            if np.isfinite(lo).all() and np.abs(lo).max() < 1e11:
                nt = True
        elif np.any(gap < -tol):
            if not close(got, new):
                return Result.violation("C14:iter:disjoint-not-replaced", f"prev [{lo.tolist()},{up.tolist()}] new [{L.tolist()},{U.tolist()}] got [{R.lower.tolist()},{R.upper.tolist()}]", labels)
            labels.append("disjoint")
            nt = True
        else:
            if not (close(got, inter) or close(got, new)):
                return Result.violation("C14:iter:touching-neither", "", labels)
            labels.append("touching")
        state[k] = (R.lower.copy(), R.upper.copy())
        for j in range(n):
            if j != k and not (np.array_equal(regs[j].lower, state[j][0]) and np.array_equal(regs[j].upper, state[j][1])):
                return Result.violation("C14:iter:other-region-changed", f"update of region {k} moved region {j}: was [{state[j][0].tolist()},"
                                        f"{state[j][1].tolist()}] now [{regs[j].lower.tolist()},{regs[j].upper.tolist()}]", labels)
    return Result.ok(sorted(set(labels)), nt)


# ------------------------------------------------------------------ strategies
@st.composite
def st_model(draw, N, d, m, allow_emp):
    kind = draw(st.sampled_from(["stub", "stub", "emp", "ind", "cor", "list"] if allow_emp else ["stub", "stub", "ind", "cor", "list"]))
    if kind == "stub":
        return {"kind": "stub", "means": [[draw(st.floats(-3, 3)) for _ in range(m)] for _ in range(N)],
                "A": [[draw(st.floats(-1, 1)) for _ in range(m * m)] for _ in range(N)],
                "diag": [[draw(gen.st_logfloat(1e-4, 1.0)) for _ in range(m)] for _ in range(N)],
                "cov_scale": draw(st.sampled_from([1.0, 1.0, 1.0, 1e-6, 1e-12, 1e-20, 1e6])),
                "mean_scale": draw(st.sampled_from([1.0, 1.0, 1.0, 1e-5, 1e4]))}
    if kind == "emp":
        adds = []
        for _ in range(draw(st.integers(1, 4))):
            idx = draw(st.lists(st.integers(0, 50), min_size=1, max_size=5))
            adds.append([idx, [[draw(st.floats(-3, 3)) for _ in range(m)] for _ in idx]])
        return {"kind": "emp", "noise_var": draw(st.sampled_from([1.0, 0.1])), "track_vars": draw(st.booleans()), "adds": adds}
    n = draw(st.integers(1, 5))
    from vverif.props.C15 import st_hyp, st_noise

    return {"kind": kind, "noise": draw(st_noise(kind, m)), "hyp": draw(st_hyp(kind, d, m)),
            "X": [[draw(st.floats(0, 1)) for _ in range(d)] for _ in range(n)],
            "Y": [[draw(st.floats(-2, 2)) for _ in range(m)] for _ in range(n)]}


@st.composite
def st_ops(draw, ctype, m):
    ops = []
    for _ in range(draw(st.integers(1, 5))):
        form = draw(st.sampled_from(["scalar", "vector", "matrix"]))
        size = draw(st.sampled_from([1, 1, 2, 3, 8]))
        idx = draw(st.lists(st.integers(0, 40), min_size=size, max_size=size))
        s = [draw(gen.st_logfloat(0.05, 40.0)) for _ in range(draw(st.integers(1, 6)))]
        ops.append({"idx": idx, "form": form, "s": s, "all": draw(st.integers(0, 5)) == 0})
    return ops


@st.composite
def st_update_case(draw):
    space = draw(st.sampled_from(["fixed", "fixed", "fixed", "adaptive"]))
    m = draw(st.integers(2, 3))
    if space == "fixed":
        N = draw(st.sampled_from([1, 2, 3, 5, 8]))
        d = draw(st.integers(1, 3))
        ctype = draw(st.sampled_from(["rect", "ell"]))
        points = hdata.grid_inputs(N, d).tolist()
        model = draw(st_model(N, d, m, True))
        if model["kind"] in ("ind", "list"):
            ctype = draw(st.sampled_from(["rect", "ell"]))
        return {"space": "fixed", "m": m, "ctype": ctype, "points": points, "model": model, "ops": draw(st_ops(ctype, m))}
    d = draw(st.integers(1, 2))
    refine = draw(st.lists(st.integers(0, 20), min_size=0, max_size=3))
    N = 1 + len(refine) * (2**d)
    model = draw(st_model(N, d, m, False))
    return {"space": "adaptive", "m": m, "d": d, "ctype": "rect", "refine": refine, "model": model, "ops": draw(st_ops("rect", m))}


@st.composite
def st_iter(draw):
    m = draw(st.integers(2, 4))  # vector optimisation: at least two objectives
    ups = []
    c = [draw(st.floats(-2, 2)) for _ in range(m)]
    for _ in range(draw(st.integers(1, 6))):
        mode = draw(st.sampled_from(["near", "near", "far", "same"]))
        if mode == "near":
            c = [x + draw(st.floats(-0.5, 0.5)) for x in c]
        elif mode == "far":
            c = [x + draw(st.sampled_from([-1, 1])) * draw(st.floats(3, 10)) for x in c]
        std = [draw(gen.st_logfloat(0.01, 1.0)) for _ in range(m)]
        s = draw(st.one_of(gen.st_logfloat(0.1, 5.0), st.lists(gen.st_logfloat(0.1, 5.0), min_size=m, max_size=m)))
        ups.append([list(c), std, s, draw(st.integers(0, 5))])
    return {"m": m, "updates": ups, "full_cov": draw(st.booleans()) and m > 1, "n_regions": draw(st.sampled_from([1, 1, 2, 3])),
            "shared_prior": draw(st.sampled_from([None, None, 5.0, 50.0]))}


COMPONENTS = [
    Component("update_history", check_update_history, strategy=st_update_case, quick=500, thorough=15000,
              rule="1..5 updates; N=1..8 designs (fixed) or 1..3 refinements (adaptive); stub/empirical/independent/correlated/model-list"),
    Component("iterative_intersection", check_iterative, strategy=st_iter, quick=1500, thorough=40000,
              rule="1..6 region-level updates with intersect_iteratively=True over 1..3 regions (own default bounds or one shared prior box): nearby, far and repeated centres"),
]
