"""C06 - runs are monotone, terminate cleanly, never crash, and account for every sample."""
from __future__ import annotations

import numpy as np
from hypothesis import strategies as st

from vverif import gen, gen_runs
from vverif.core import Component, Result, vopy_frame_sig
from vverif.harness import algos as ha
from vverif.harness import data as hdata

RULE = ("history = a whole run (run_one_step until completion plus 3 more steps) of one of the nine algorithms on a generated configuration "
        "(order incl. K>m facets, confidence type, batch 1..K+3, costs/budget, 1..10 designs or a user-defined continuous problem), with the "
        "real models (hyper-parameters generated, not trained), the empirical model or the adversarial stub; invariants checked after every step "
        "against a recording proxy on problem.evaluate. non-trivial = run with batch > 1, or K != m facets, or a budget stop, or >= 5 rounds")
ASSUMPTIONS = ["no liveness claim: a run hitting the step cap is counted inconclusive", "GP hyper-parameters are set, not trained (model code itself is the real one)"]

MAX_STEPS = 80


def _crash_sig(spec, e):
    where = vopy_frame_sig(e) or "harness"
    algo = spec["algo"]
    tags = []
    if algo != "VOGP_AD":
        W = gen_runs.cone_matrix(spec["cone"]) if algo not in ("EpsilonPAL", "Auer") else np.eye(len(spec["Y"][0]))
        if W.shape[0] != W.shape[1]:
            tags.append("K!=m")
        if spec.get("batch", 1) > 1 and any(t in where for t in ("acquisition", "locate_points", "gpytorch.py:forward")):
            tags.append("batch>1")
    else:
        if spec["problem"]["d"] < spec["problem"]["m"]:
            tags.append("in_dim<out_dim")
    conf = ha.conf_type(spec)
    return f"C06:crash:{algo}:{conf}:{type(e).__name__}@{where}" + (":" + ",".join(tags) if tags else "")


def check_run(spec):
    algo = spec["algo"]
    labels = ["algo=" + algo, "source=" + spec.get("source", "real")]
    try:
        alg, ctx = ha.build(spec)
    except Exception as e:  # noqa: BLE001
        if vopy_frame_sig(e) is None:
            raise
        return Result.violation(_crash_sig(spec, e) + ":construction", f"{type(e).__name__}: {str(e)[:200]}", labels)
    rec = ctx.recorder
    costs = np.array(spec["costs"], float) if spec.get("costs") is not None else None
    budget = spec.get("budget")
    L = getattr(alg, "L", None) if algo == "NaiveElimination" else None
    has_sets = algo in ha.ELIMINATING
    ever_left = set()
    done = False
    extra = 0
    steps = 0
    refined_parents = set()
    nt_rounds = 0

    def viol(sig, detail):
        return Result.violation(f"C06:{sig}:{algo}", detail + f" [step {steps}]", labels)

    while steps < MAX_STEPS:
        b = ha.snapshot(alg, ctx)
        nref = len(getattr(ctx, "refines", []))
        try:
            flag = bool(alg.run_one_step())
        except Exception as e:  # noqa: BLE001
            if vopy_frame_sig(e) is None:
                raise
            return Result.violation(_crash_sig(spec, e), f"{type(e).__name__}: {str(e)[:200]} at step {steps} (S={b['S']}, P={b['P']})", labels)
        a = ha.snapshot(alg, ctx)
        steps += 1
        new_ref = getattr(ctx, "refines", [])[nref:]
        if done:
            # steps after completion change nothing and take no samples
            same = all(a[k] == b[k] for k in ("S", "P", "U", "round", "sample_count", "total_cost", "n_calls", "n_evals"))
            if not same or not flag:
                return viol("post-completion-step-changed-state", f"before {[(k, b[k]) for k in ('S','P','round','sample_count','n_evals')]} after "
                            f"{[(k, a[k]) for k in ('S','P','round','sample_count','n_evals')]} flag={flag}")
            if "regions" in a and any(not all(np.array_equal(x, y) for x, y in zip(r1, r2)) for r1, r2 in zip(a["regions"], b["regions"])):
                return viol("post-completion-step-changed-state", "regions changed")
            extra += 1
            if extra >= 3:
                break
            continue
        # ---- active step
        if a["round"] != b["round"] + 1:
            return viol("round-counter", f"round {b['round']} -> {a['round']}")
        nt_rounds += 1
        if has_sets:
            S0, S1, P0, P1 = b["S"], a["S"], b["P"], a["P"]
            children = {c for (_, ch, _) in new_ref for c in ch}
            parents = {p for (p, _, _) in new_ref}
            refined_parents |= parents
            if not S1 <= (S0 | children):
                return viol("S-grew", f"S {sorted(S0)} -> {sorted(S1)}")
            if not (P0 - parents) <= P1 or not P1 <= (P0 | S0 | children):
                return viol("P-not-monotone", f"P {sorted(P0)} -> {sorted(P1)} (S before {sorted(S0)})")
            if S1 & P1:
                return viol("S-P-overlap", f"{sorted(S1 & P1)}")
            if a["U"] is not None and not a["U"] <= P1:
                return viol("U-not-in-P", f"U {sorted(a['U'])} P {sorted(P1)}")
            left = (S0 - S1)
            ever_left |= left
            if (S1 - children) & (ever_left - (S0 & S1)):
                back = (S1 & ever_left) - S0
                if back:
                    return viol("design-returned-to-S", f"{sorted(back)}")
            if parents & (S1 | P1):
                return viol("refined-parent-kept", f"{sorted(parents & (S1 | P1))}")
        # ---- accounting against the proxy log
        if a["sample_count"] != a["n_evals"]:
            return viol("sample-count", f"sample_count {a['sample_count']} but {a['n_evals']} evaluations were requested from the problem")
        if a["total_cost"] is not None and costs is not None:
            tot = 0.0
            for x, ei, y in rec.calls:
                if ei is None:
                    tot += float(costs.sum()) * len(np.atleast_2d(x))
                else:
                    tot += float(costs[np.asarray(ei, int)].sum())
            if abs(tot - a["total_cost"]) > 1e-9 * max(1.0, tot):
                return viol("total-cost", f"total_cost {a['total_cost']} but logged evaluations cost {tot}")
        # ---- completion flag
        should = False
        if has_sets:
            should |= len(a["S"]) == 0
        if L is not None:
            should |= a["round"] == L
        if budget is not None and a["total_cost"] is not None:
            should |= a["total_cost"] >= budget
        if flag != should:
            return viol("completion-flag", f"returned {flag} with S={a['S']} round={a['round']} L={L} cost={a['total_cost']} budget={budget}")
        if flag:
            done = True
            if budget is not None and a["total_cost"] is not None and a["total_cost"] >= budget and (not has_sets or a["S"]):
                labels.append("budget-stop")
    if not done:
        return Result.ok(labels + ["step-cap:inconclusive"], False)
    nt = nt_rounds >= 5 or spec.get("batch", 1) > 1 or "budget-stop" in labels
    if algo not in ("EpsilonPAL", "Auer", "VOGP_AD"):
        W = gen_runs.cone_matrix(spec["cone"])
        if W.shape[0] != W.shape[1]:
            labels.append("K!=m")
            nt = True
    if spec.get("batch", 1) > 1:
        labels.append("batch>1")
    if getattr(ctx, "refines", None):
        labels.append("refined")
    return Result.ok(labels, nt)


# ------------------------------------------------------------------ strategies
ALGOS = ["PaVeBa", "PaVeBaGP", "PaVeBaPartialGP", "VOGP", "EpsilonPAL", "Auer", "NaiveElimination", "DecoupledGP"]


@st.composite
def st_spec(draw, algo=None, known_exclusions=True):
    algo = algo or draw(st.sampled_from(ALGOS))
    K = draw(st.integers(1, 10)) if algo not in ("NaiveElimination",) else draw(st.integers(2, 8))
    if algo == "DecoupledGP":
        K = draw(st.integers(2, 6))
    spec = draw(gen_runs.st_run_spec(algo, K=K, batch_max=K + 3, allow_Kgtm=True))
    if algo in ("PaVeBaGP", "PaVeBaPartialGP") and ha.conf_type(spec) == "rect" and draw(st.integers(0, 7)) == 0:
        # hyper-rectangular PaVeBa-family types with K != m facets (known finding F7): kept in the domain so it is re-observed
        mm = len(spec["Y"][0])
        spec["cone"] = draw(gen.st_diag_cone(mm, 2).filter(lambda c: c["kind"] == "diag" and len(c["phi"]) > mm)) if mm == 2 else \
            {"kind": "ice", "deg": 45.0, "K": draw(st.integers(4, 6))}
    if algo == "Auer":
        spec["empirical"] = draw(st.booleans())
    if algo == "NaiveElimination":
        if spec["cone"]["kind"] == "theta" and draw(st.booleans()):
            spec["L"] = None
            spec["noise_var"] = 0.05
            spec["eps"] = max(spec["eps"], 0.3)
        else:
            spec["L"] = draw(st.integers(1, 6))
    m = len(spec["Y"][0])
    if algo in ("PaVeBaPartialGP", "DecoupledGP"):
        if algo == "DecoupledGP" or draw(st.booleans()):
            # costs as floats or as plain integers (np.array of them has an integer dtype)
            fam = draw(st.sampled_from([[1.0, 0.5, 2.0, 3.0], [1.0, 0.5, 2.0, 3.0], [1, 2, 3]]))
            spec["costs"] = [draw(st.sampled_from(fam)) for _ in range(m)]
            spec["budget"] = draw(st.sampled_from([3.0, 6.0, 10.0])) if algo == "DecoupledGP" else draw(st.sampled_from([None, 4.0, 12.0, 1000.0]))
            if draw(st.booleans()):
                # equal costs and a budget that is an exact multiple: the total cost reaches the budget exactly
                c = spec["costs"][0]
                spec["costs"] = [c] * m
                spec["budget"] = float(c * draw(st.integers(2, 8)))
    return spec


@st.composite
def st_spec_trained(draw):
    """GP algorithms through their REAL constructors (marginal-likelihood training of the GP on the dataset):
    no factory substitution at all."""
    algo = draw(st.sampled_from(["PaVeBaGP", "PaVeBaPartialGP", "VOGP", "EpsilonPAL", "DecoupledGP"]))
    K = draw(st.integers(3, 6))
    spec = draw(gen_runs.st_run_spec(algo, K=K, batch_max=K + 2, allow_Kgtm=True, source="fast"))
    spec["source"] = "trained"
    spec.pop("hyp", None)
    m = len(spec["Y"][0])
    if algo in ("PaVeBaPartialGP", "DecoupledGP"):
        fam = draw(st.sampled_from([[1.0, 0.5, 2.0], [1.0, 0.5, 2.0], [1, 2, 3]]))
        spec["costs"] = [draw(st.sampled_from(fam)) for _ in range(m)]
        spec["budget"] = draw(st.sampled_from([3.0, 6.0])) if algo == "DecoupledGP" else draw(st.sampled_from([None, 5.0]))
    if algo in ("PaVeBaGP", "PaVeBaPartialGP") and ha.conf_type(spec) == "rect":
        W = gen_runs.cone_matrix(spec["cone"])
        if W.shape[0] != W.shape[1]:
            spec["cone"] = {"kind": "comp", "m": m}
    return spec


@st.composite
def st_spec_ad(draw):
    d = draw(st.sampled_from([1, 2, 2, 3]))
    m = 2 if d < 3 else draw(st.sampled_from([2, 3]))
    if draw(st.integers(0, 7)) == 0:
        d, m = 1, 2  # in_dim < out_dim (F12): kept in the domain so that the known finding is re-observed
    elif d < m:
        d = m
    cone = draw(gen_runs.st_cone_for("VOGP_AD", "rect", True, m))
    return {"algo": "VOGP_AD", "cone": cone, "eps": draw(st.sampled_from([0.2, 0.5, 1.0])), "delta": 0.1,
            "contraction": draw(st.sampled_from([16, 64])), "seed": draw(st.integers(0, 2**31 - 1)), "source": "fast",
            "problem": {"d": d, "m": m, "depth_max": draw(st.sampled_from([1, 2, 2, 3] if d < 3 else [1, 2])), "noise_var": draw(st.sampled_from([0.01, 0.1])),
                        "coef": [round(draw(st.floats(-1.5, 1.5)), 2) for _ in range(5 * m)]}}


COMPONENTS = [
    Component("run_invariants", check_run, strategy=st_spec, quick=240, thorough=12000,
              rule="8 dataset algorithms x sources x orders x confidence types x batch 1..K+3 x costs/budgets, K=1..10 designs"),
    Component("run_invariants_trained_gp", check_run, strategy=st_spec_trained, quick=16, thorough=300,
              rule="GP algorithms built by their real constructors (GP trained on the 3..6-design dataset), no substitution"),
    Component("run_invariants_vogp_ad", check_run, strategy=st_spec_ad, quick=32, thorough=1200,
              rule="VOGP_AD on user-defined continuous problems d=1..3, depth 1..3; S/P monotone modulo parent->children"),
]
