"""C01 - valid confidence regions imply an eps-accurate Pareto set (PaVeBa family, Auer)."""
from __future__ import annotations

import numpy as np
from hypothesis import strategies as st

from vverif import gen, gen_runs
from vverif.core import Component, HarnessError, Result
from vverif.harness import algos as ha
from vverif.oracles import geom

RULE = ("history = a whole run to termination of PaVeBa / PaVeBaGP / PaVeBaPartialGP / Auer on a generated dataset with ties and gaps eps(1+-eta), under an "
        "adversarial stub posterior that keeps the truth inside every displayed region (offsets at region corners / boundary half of the time, anisotropic "
        "shrinking covariances) or the real model at contraction 1; premise re-verified every round by a closed-form monitor; conclusion on the true means by "
        "independent oracles: every design outside P weakly dominated by a member of P, every member of P with gap (NNLS alpha) <= eps. non-trivial = run with "
        ">= 2 rounds, >= 1 design outside P and a design whose gap or dominance margin is within 50% of eps")
ASSUMPTIONS = ["runs whose premise fails (possible only with real models) or that hit the step cap are excluded and counted",
               "hyper-rectangular PaVeBa types only with K = m facets (K != m raises, finding F7 under C06)",
               "Auer in its default (theoretical) width mode"]

MAX_STEPS = 150


def rho_of(W):
    """max_n (W alpha)_n / alpha_n : how much the objective-space shift eps*alpha over-delivers on some facet."""
    Wn = W / np.linalg.norm(W, axis=1)[:, None]
    al, _, _ = geom.cone_alpha(Wn)
    if Wn.shape[0] != Wn.shape[1]:
        return 1.0
    return float(np.max((Wn @ al) / al))


def check_run(spec):
    algo = spec["algo"]
    conf = ha.conf_type(spec)
    labels = ["algo=" + algo, "source=" + spec["source"], "conf=" + conf]
    alg, ctx = ha.build(spec)
    Y = ctx.truth
    K = len(Y)
    W = np.asarray(ctx.order.ordering_cone.W, float)
    Wn = W / np.linalg.norm(W, axis=1)[:, None]
    al, _, _ = geom.cone_alpha(Wn)
    eps = spec["eps"]
    steps = 0
    done = False
    premise_ok = True
    cap = 4000 if algo == "Auer" else 400 if spec["source"] == "real" else MAX_STEPS
    while steps < cap:
        active = set(alg.S) | set(getattr(alg, "U", set()))
        flag = alg.run_one_step()
        steps += 1
        regs = ha.regions_of(alg, conf)
        for i in active:
            if not ha.truth_inside(regs[i], Y[i], conf):
                premise_ok = False
                if spec["source"] == "stub":
                    raise HarnessError(f"stub posterior left the truth outside the displayed region (design {i}, step {steps})")
        if flag:
            done = True
            break
    if not done:
        return Result.skip(labels + ["step-cap:inconclusive"])
    if not premise_ok:
        return Result.skip(labels + ["premise-failed"])
    P = set(map(int, alg.P))
    scale = max(1.0, float(np.abs(Y).max()))
    F = (Y[None, :, :] - Y[:, None, :]) @ Wn.T  # F[i,j,n] = w_n.(mu_j - mu_i)
    gaps = np.array([max(float(np.min(np.maximum(F[i, j], 0) / al)) for j in range(K)) for i in range(K)])
    rho = rho_of(W)
    if rho > 1 + 1e-6:
        labels.append("rho>1")
    # (a) every design outside P is weakly dominated by a member of P
    for i in range(K):
        if i in P:
            continue
        best = max((float(F[i, j].min()) for j in P), default=-np.inf)
        if best < -1e-6 * scale:
            return Result.violation(f"C01:excluded-design-not-dominated-by-P:{algo}:{conf}",
                                    f"design {i} left out of P={sorted(P)} but no member dominates it (best facet margin {best:.3g}); truth={Y.tolist()} W={W.tolist()}", labels)
        if best < -1e-9 * scale:
            return Result.indet(labels + ["dominance-band"])
    # (b) every member of P has gap <= eps
    worst = max((gaps[i] for i in P), default=0.0)
    if worst > eps * (1 + 1e-6) + 1e-9:
        i = max(P, key=lambda k: gaps[k])
        tag = ":rho>1" if (rho > 1 + 1e-6 and conf == "rect" and algo != "Auer") else ""
        return Result.violation(f"C01:P-member-gap-exceeds-eps:{algo}:{conf}{tag}",
                                f"design {i} in P has gap {gaps[i]:.6g} = {gaps[i] / eps:.4f} eps (rho={rho:.4f}); P={sorted(P)} truth={Y.tolist()} "
                                f"W={W.tolist()} after {steps} rounds", labels)
    near = np.any((np.abs(gaps - eps) <= 0.5 * eps) & (gaps > 0))
    nt = steps >= 2 and len(P) < K and bool(near)
    labels.append("rounds>=5" if steps >= 5 else "rounds<5")
    if len(P) < K:
        labels.append("some-excluded")
    return Result.ok(labels, nt)


@st.composite
def st_spec(draw, algos, sources=None):
    algo = draw(st.sampled_from(algos))
    spec = draw(gen_runs.st_run_spec(algo, allow_Kgtm=True, batch_max=3))
    if sources:
        spec["source"] = draw(st.sampled_from(sources))
    if spec["source"] == "real":
        spec["contraction"] = 1
        spec["noise_var"] = 0.001
        spec["eps"] = max(spec["eps"], 0.3)
        spec.pop("stub", None)
    if spec["source"] == "stub" and "stub" not in spec:
        spec["stub"] = draw(gen_runs.st_stub(len(spec["Y"][0])))
    if algo == "Auer":
        spec["empirical"] = False
    return spec


@st.composite
def st_auer_shrunk(draw):
    """Auer with 5..7 designs of which one or two (low or arbitrary ids) lie far below the rest: they are discarded in the
    first rounds, so that afterwards design ids and positions in the candidate set differ while the designs with gaps
    around eps are still being decided."""
    spec = draw(gen_runs.st_run_spec("Auer", source="stub", K=draw(st.integers(5, 7))))
    spec["empirical"] = False
    W = gen_runs.cone_matrix(spec["cone"])
    u = gen_runs.interior_dir(W)
    K = len(spec["Y"])
    far = draw(st.lists(st.sampled_from([0, 0, 1, 1, 2, 3]), min_size=1, max_size=2, unique=True))
    for i in far:
        ref = np.array(spec["Y"][draw(st.integers(0, K - 1))])
        spec["Y"][i] = [float(x) for x in ref - u * draw(st.floats(8, 40)) * spec["eps"]]
    spec["contraction"] = draw(st.sampled_from([1, 4, 8, 16, 32]))
    return spec


@st.composite
def st_rho_gt1(draw):
    """Hyper-rectangular PaVeBa types on cones with rho > 1 (obtuse 2-D cones, 3-D obtuse): where finding F8 lives."""
    algo = draw(st.sampled_from(["PaVeBaGP", "PaVeBaPartialGP"]))
    conf = "IH" if algo == "PaVeBaGP" else "hyperrectangle"
    spec = draw(gen_runs.st_run_spec(algo, source="stub", conf=conf, allow_Kgtm=False, K=draw(st.integers(2, 4))))
    cone = draw(st.one_of(st.floats(100, 170).map(lambda d: {"kind": "theta", "deg": round(d, 1)}), st.just({"kind": "c3d", "type": "obtuse"})))
    spec["cone"] = cone
    W = gen_runs.cone_matrix(cone)
    spec["Y"] = draw(gen_runs.st_values(len(spec["Y"]), W, spec["eps"]))
    spec["stub"] = draw(gen_runs.st_stub(W.shape[1]))
    spec["stub"]["cov_scale"] = draw(st.sampled_from([0.01, 0.1, 1.0]))
    return spec


COMPONENTS = [
    Component("paveba_family_stub", check_run, strategy=lambda: st_spec(["PaVeBa", "PaVeBaGP", "PaVeBaPartialGP"], ["stub"]), quick=220, thorough=8000,
              rule="adversarial stub posteriors; ellipsoidal types with K>=m facets, rectangular types K=m; batch 1..3"),
    Component("auer_stub_and_real", check_run, strategy=lambda: st_spec(["Auer"]), quick=150, thorough=6000, rule="Auer, theoretical widths, stub and real (contraction 1)"),
    Component("auer_after_early_discards", check_run, strategy=st_auer_shrunk, quick=150, thorough=6000,
              rule="Auer, stub posterior, 5..7 designs with one or two far-dominated ones at low ids (discarded early: ids != positions in S afterwards)"),
    Component("paveba_real_contraction1", check_run, strategy=lambda: st_spec(["PaVeBa"], ["real"]), quick=40, thorough=1500,
              rule="PaVeBa with the real empirical model at the theoretical setting"),
    Component("rect_types_rho_gt_1", check_run, strategy=st_rho_gt1, quick=120, thorough=5000,
              rule="PaVeBaGP(IH)/PaVeBaPartialGP(hyperrectangle) under cones whose shift eps*alpha exceeds eps*alpha_n on a facet"),
]
