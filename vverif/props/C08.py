"""C08 - NaiveElimination with its default sample count is (eps, delta)-PAC; P = exact Pareto set of means."""
from __future__ import annotations

import math

import numpy as np
from hypothesis import strategies as st
from scipy import integrate
from scipy import stats as sstats

from vverif import gen
from vverif.core import Component, HarnessError, Result
from vverif.harness import data as hdata
from vverif.oracles import geom

RULE = ("(i) two-design instances (noise_var on both sides of 1, eps, delta, cone angle, displacement inside the cone, gap = eps(1+eta)): "
        "algorithm.L read from a real NaiveElimination instance, failure probability = 1 - P[N(d, 2 sigma^2/L I) in C] by 1-D quadrature, required "
        "<= delta; (ii) Monte-Carlo real runs on 3..6 designs with an exact binomial tail test at 1e-9; (iii) P after every step vs the brute-force "
        "Pareto set of per-design means of the logged observations. non-trivial = failure probability under the instance's L >= delta/1000, or noise_var < 1")
ASSUMPTIONS = ["K >= 2 (the formula divides by K(K-1))", "2-D theta cones (the only bundled cones carrying the ordering complexity beta)",
               "Monte-Carlo: violation only when the exact binomial tail P[X >= f | p = delta] < 1e-9"]


def prob_in_cone(d, s, theta_deg):
    """P[N(d, s^2 I) in C_theta], C_theta symmetric about the diagonal with opening theta < 180."""
    rot = np.array([[1, 1], [-1, 1]]) / math.sqrt(2)  # diagonal -> x axis
    dx, dy = rot @ np.asarray(d, float)
    tg = math.tan(math.radians(theta_deg) / 2)

    def integrand(x):
        return sstats.norm.pdf((x - dx) / s) / s * (sstats.norm.cdf((x * tg - dy) / s) - sstats.norm.cdf((-x * tg - dy) / s))

    lo, hi = max(0.0, dx - 12 * s), max(0.0, dx + 12 * s)
    if hi <= lo:
        return 0.0
    val, err = integrate.quad(integrand, lo, hi, limit=400, epsabs=1e-13, epsrel=1e-11)
    return float(min(1.0, max(0.0, val)))


_selfcheck_done = False


def _selfcheck():
    global _selfcheck_done
    if _selfcheck_done:
        return
    rs = np.random.RandomState(7)
    for th, d, s in [(60.0, (0.3, 0.25), 0.2), (120.0, (0.05, 0.2), 0.3), (20.0, (1.0, 1.05), 0.15)]:
        W = gen.cone_W({"kind": "diag", "m": 2, "phi": [math.radians(90 - th / 2)] * 2})
        x = rs.normal(size=(400000, 2)) * s + np.array(d)
        mc = float(((x @ W.T) >= 0).all(axis=1).mean())
        q = prob_in_cone(d, s, th)
        if abs(mc - q) > 6 * math.sqrt(max(q * (1 - q), 1e-6) / 400000) + 1e-4:
            raise HarnessError(f"prob_in_cone self-check failed: quadrature {q} vs Monte-Carlo {mc} (theta={th})")
    _selfcheck_done = True


def check_closed_form(case):
    from vopy.algorithms import NaiveElimination
    from vopy.order import ConeTheta2DOrder

    _selfcheck()
    th, eps, delta, nv = case["theta"], case["eps"], case["delta"], case["noise_var"]
    unit = float(case.get("unit", 1.0))  # the guarantee is scale equivariant: (eps, sigma) -> (c eps, c sigma)
    eps, nv = eps * unit, nv * unit * unit
    order = ConeTheta2DOrder(th)
    W = np.asarray(order.ordering_cone.W, float)
    al, _, _ = geom.cone_alpha(W)
    psi = case["psi_frac"] * th / 2
    u = np.array([math.cos(math.radians(45 + psi)), math.sin(math.radians(45 + psi))])
    g1 = float(np.min((W @ u) / al))  # gap per unit displacement
    if g1 <= 1e-9:
        return Result.indet(["direction-on-boundary"])
    d = u * eps * (1 + case["eta"]) / g1
    muA = np.array(case["base"], float)
    name = hdata.register_dataset([[0.0], [1.0]], [muA.tolist(), (muA + d).tolist()])
    try:
        alg = NaiveElimination(eps, delta, name, order, nv)
    finally:
        hdata.unregister_dataset(name)
    L = int(alg.L)
    labels = ["theta<90" if th < 90 else "theta>=90", "noise<1" if nv < 1 else "noise>=1"]
    if L < 1:
        return Result.violation("C08:L<1", f"L={L}", labels)
    s = math.sqrt(2 * nv / L)
    pfail = 1.0 - prob_in_cone(d, s, th)
    if pfail > delta + 1e-6:
        return Result.violation("C08:default-L-too-small",
                                f"noise_var={nv}, eps={eps}, delta={delta}, theta={th}: default L={L}; two designs with gap {1 + case['eta']:.4g} eps "
                                f"-> failure probability {pfail:.4g} > delta", labels)
    labels.append("pfail>=delta/1000" if pfail >= delta / 1000 else "pfail<delta/1000")
    return Result.ok(labels, pfail >= delta / 1000 or nv < 1)


@st.composite
def st_closed(draw):
    return {"theta": draw(st.one_of(st.sampled_from([10.0, 30.0, 45.0, 60.0, 89.0, 90.0, 91.0, 120.0, 135.0, 170.0]), st.floats(5.0, 175.0))),
            "eps": draw(st.one_of(gen.st_logfloat(0.01, 1.0), gen.st_logfloat(1.0, 100.0))), "delta": draw(gen.st_logfloat(1e-4, 0.5)),
            "noise_var": draw(st.one_of(gen.st_logfloat(1e-3, 10.0), gen.st_logfloat(10.0, 1e4))), "psi_frac": draw(st.floats(-0.95, 0.95)),
            "eta": draw(gen.st_logfloat(1e-3, 0.5)), "base": [draw(st.floats(-1, 1)), draw(st.floats(-1, 1))]}


class Recorder:
    """Recording proxy around problem.evaluate."""

    def __init__(self, problem):
        self.problem = problem
        self.calls = []
        self._orig = problem.evaluate

    def __call__(self, x, *a, **k):
        y = self._orig(x, *a, **k)
        self.calls.append((np.array(x, float).copy(), np.array(y, float).copy()))
        return y


def check_P_identity(case):
    from vopy.algorithms import NaiveElimination
    from vopy.order import ConeTheta2DOrder
    from vopy.utils import set_seed

    th = case["theta"]
    order = ConeTheta2DOrder(th)
    W = np.asarray(order.ordering_cone.W, float)
    # the order is translation invariant and positively homogeneous: values may sit far from the origin with a small spread
    spread, off = float(case.get("spread", 1.0)), float(case.get("offset", 0.0))
    Y = off + spread * np.array(case["Y"], float)
    K = len(Y)
    X = hdata.grid_inputs(K, case["d"])
    name = hdata.register_dataset(X, Y)
    try:
        alg = NaiveElimination(0.1 * spread, 0.1, name, order, case["noise_var"] * spread * spread, L=case["L"])
    finally:
        hdata.unregister_dataset(name)
    rec = Recorder(alg.problem)
    alg.problem.evaluate = rec
    set_seed(case["seed"])
    labels = [f"K={K}", "L<=50" if case["L"] <= 50 else "L>50" if case["L"] <= 200 else "L>1024"] + (["far-from-origin"] if off else [])
    band = max(1e-9 * spread, 1e-13 * abs(off) * (case["L"] + 1))  # float64 rounding of the running means
    nt = False
    sums = np.zeros((K, 2))
    cnt = np.zeros(K)
    seen = 0
    for step in range(case["L"] + 1):
        done = alg.run_one_step()
        if not rec.calls:
            continue
        for x, y in rec.calls[seen:]:
            idx = ((x[:, None, :] - X[None, :, :]) ** 2).sum(-1).argmin(1)
            for i, r in zip(idx, y):
                sums[i] += r
                cnt[i] += 1
        seen = len(rec.calls)
        r = len(rec.calls)
        if case["L"] > 200 and not (r % 97 == 0 or r >= case["L"] or any(0 < r - 2**k <= 3 for k in range(7, 14))):
            continue  # long runs: compared every 97th round, in the three rounds after each power of two, and at the end
        if cnt.min() == 0:
            return Result.violation("C08:P:design-never-sampled", f"counts {cnt.tolist()}", labels)
        means = sums / cnt[:, None]
        V = np.abs((means[:, None, :] - means[None, :, :]) @ W.T)
        if np.any((V < band) & ~np.eye(K, dtype=bool)[:, :, None]):
            continue
        D = geom.dominance_matrix(means, W)
        strict = D & ~D.T
        exp = [i for i in range(K) if not strict[:, i].any()]
        got = sorted(int(i) for i in np.asarray(alg.P).reshape(-1))
        if got != exp:
            return Result.violation("C08:P:not-pareto-of-running-means", f"after {len(rec.calls)} rounds P={got}, Pareto set of per-design means={exp}", labels)
        if len(exp) < K and len(rec.calls) >= 2:
            nt = True
    if not done:
        return Result.violation("C08:no-completion-after-L-rounds", f"L={case['L']}", labels)
    return Result.ok(labels, nt)


@st.composite
def st_pid(draw):
    K = draw(st.integers(2, 7))
    return {"theta": draw(st.sampled_from([30.0, 60.0, 90.0, 120.0, 150.0])), "d": draw(st.integers(1, 3)),
            "Y": [[draw(st.floats(-1, 1)), draw(st.floats(-1, 1))] for _ in range(K)], "noise_var": draw(gen.st_logfloat(1e-3, 1.0)),
            "L": draw(st.one_of(st.integers(1, 6), st.integers(1, 6), st.integers(45, 130))),
            "offset": draw(st.sampled_from([0.0, 0.0, 1e4, -1e6])), "spread": draw(st.sampled_from([1.0, 1.0, 1e-3])), "seed": draw(st.integers(0, 2**31 - 1))}


@st.composite
def st_pid_long(draw):
    case = draw(st_pid())
    case["Y"] = case["Y"][: draw(st.integers(2, 4))]
    case["L"] = draw(st.sampled_from([1024, 2048, 4096])) + draw(st.integers(1, 40))
    return case


def check_monte_carlo(case):
    from vopy.algorithms import NaiveElimination
    from vopy.order import ConeTheta2DOrder
    from vopy.utils import set_seed

    th, eps, delta, nv = case["theta"], case["eps"], case["delta"], case["noise_var"]
    unit = float(case.get("unit", 1.0))  # the guarantee is scale equivariant: (eps, sigma) -> (c eps, c sigma)
    eps, nv = eps * unit, nv * unit * unit
    order = ConeTheta2DOrder(th)
    W = np.asarray(order.ordering_cone.W, float)
    al, _, _ = geom.cone_alpha(W)
    # designs: a Pareto point plus points displaced into the dominated region with gaps eps(1+eta_i)
    top = np.array([0.0, 0.0])
    Y = [top.tolist()]
    for frac, eta in zip(case["psi"], case["etas"]):
        psi = frac * th / 2
        u = np.array([math.cos(math.radians(45 + psi)), math.sin(math.radians(45 + psi))])
        g1 = float(np.min((W @ u) / al))
        if g1 <= 1e-6:
            continue
        Y.append((top - u * eps * (1 + eta) / g1).tolist())
    Y = np.array(Y) + float(case.get("offset", 0.0))
    K = len(Y)
    if K < 3:
        return Result.indet(["too-few-designs"])
    X = hdata.grid_inputs(K, 2)
    name = hdata.register_dataset(X, Y)
    try:
        alg0 = NaiveElimination(eps, delta, name, order, nv)
        L = int(alg0.L)
        labels = [f"K={K}", "noise<1" if case["noise_var"] < 1 else "noise>=1", f"unit={unit:g}"] + (["far-from-origin"] if case.get("offset") else [])
        if L > 4000:
            return Result.indet(labels + ["L-too-large-for-MC"])
        # gaps and coverage on the truth
        gaps = np.array([max(float(np.min(np.maximum(W @ (Y[j] - Y[i]), 0) / al)) for j in range(K)) for i in range(K)])
        runs = case["runs"]
        fails = 0
        for r in range(runs):
            set_seed(case["seed"] + r)
            alg = NaiveElimination(eps, delta, name, order, nv)
            while not alg.run_one_step():
                pass
            P = sorted(int(i) for i in np.asarray(alg.P).reshape(-1))
            bad = any(gaps[i] > eps * (1 + 1e-9) for i in P)
            # every true Pareto design eps-covered by the output
            for i in range(K):
                if gaps[i] == 0 and i not in P:
                    dist = min(geom.cover_distance(W, Y[i], Y[j])[0] for j in P) if P else np.inf
                    if dist > eps * (1 + 1e-9):
                        bad = True
            fails += bad
    finally:
        hdata.unregister_dataset(name)
    tail = float(sstats.binom.sf(fails - 1, runs, delta)) if fails > 0 else 1.0
    if tail < 1e-9:
        return Result.violation("C08:default-L-too-small",
                                f"Monte-Carlo: {fails}/{runs} runs failed with default L={L} (noise_var={nv}, eps={eps}, delta={delta}, theta={th}, K={K}); "
                                f"binomial tail under p=delta: {tail:.2e}", labels)
    return Result.ok(labels + [f"fails={'0' if fails == 0 else '>0'}"], case["noise_var"] < 1 or fails > 0)


@st.composite
def st_mc(draw):
    n = draw(st.integers(2, 5))
    return {"theta": draw(st.sampled_from([45.0, 60.0, 90.0, 120.0])), "eps": draw(st.sampled_from([0.2, 0.5, 1.0])),
            "delta": draw(st.sampled_from([0.05, 0.1, 0.2])), "noise_var": draw(st.sampled_from([0.01, 0.05, 0.25, 1.0, 2.0])),
            "psi": [draw(st.floats(-0.9, 0.9)) for _ in range(n)], "etas": [draw(gen.st_logfloat(0.01, 0.3)) for _ in range(n)],
            "runs": 60, "seed": draw(st.integers(0, 2**30)), "unit": draw(st.sampled_from([1.0, 1.0, 1e-4, 1e-2, 1e3])),
            "offset": draw(st.sampled_from([0.0, 0.0, 1e4]))}


COMPONENTS = [
    Component("default_L_closed_form", check_closed_form, strategy=st_closed, quick=600, thorough=20000,
              rule="two designs, displacement direction within the cone, gap eps(1+eta), eta 1e-3..0.5"),
    Component("P_is_pareto_of_means", check_P_identity, strategy=st_pid, quick=300, thorough=8000,
              rule="2..7 designs, 1..6 or 45..130 rounds (beyond the 50-round logging throttle), recording proxy on problem.evaluate; compared after every step incl. one step after completion"),
    Component("P_is_pareto_of_means_long_runs", check_P_identity, strategy=st_pid_long, quick=12, thorough=200,
              rule="2..4 designs, runs of 1025..4136 rounds (just beyond a power of two: sample storage that grows in steps); compared "
                   "every 97th round, in the three rounds after each power of two and at the end"),
    Component("default_L_monte_carlo", check_monte_carlo, strategy=st_mc, quick=24, thorough=400,
              rule="3..6 designs, 60 real runs each with the default L (<= 4000), problem rescaled by 1 / 1e-4 / 1e-2 / 1e3, exact binomial tail at 1e-9"),
]
