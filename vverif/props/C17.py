"""C17 - cone constants alpha, u*, d1 and beta are the optima they are defined as."""
from __future__ import annotations

import math
from types import SimpleNamespace

import numpy as np
from hypothesis import strategies as st

from vverif import gen
from vverif.core import Component, Result
from vverif.oracles import geom

RULE = ("case = cone spec (bundled over full parameter range, random unit-normal cones 2-4-D, K=m..m+3); oracle = "
        "non-negative least squares (Moreau projection for alpha, Lawson-Hanson LDP for u*, d1) with primal and dual "
        "certificates checked by arithmetic; non-trivial = cone that is not the orthant (alpha or u* not trivially 1 / diagonal)")
ASSUMPTIONS = ["unit facet normals; pointed solid cones", "agreement demanded at 1e-6 (solver accuracy ~1e-8)"]
TOL = 1e-6


def _W(spec):
    order = gen.make_order(spec)
    return order, np.asarray(order.ordering_cone.W, float)


def check_alpha(case):
    spec = case["cone"]
    order, W = _W(spec)
    labels = list(gen.cone_labels(spec))
    al = np.asarray(order.ordering_cone.alpha, float)
    K = W.shape[0]
    if al.shape != (K, 1):
        return Result.violation("C17:alpha:shape", f"{al.shape} K={K}", labels)
    ref, lb, ub = geom.cone_alpha(W)
    if np.max(ub - lb) > 1e-7:
        return Result.indet(labels + ["oracle-gap"])
    err = np.abs(al.flatten() - ref)
    if np.max(err) > TOL:
        n = int(np.argmax(err))
        return Result.violation("C17:alpha:value", f"alpha[{n}]={al.flatten()[n]} oracle in [{lb[n]},{ub[n]}] W={W.tolist()}", labels)
    nt = bool(np.any(np.abs(ref - 1) > 1e-3)) or spec["kind"] != "comp"
    if np.any(ref < 1 - 1e-3):
        labels.append("alpha<1")
    return Result.ok(labels, nt)


def check_ustar(case):
    from vopy.algorithms.vogp import VOGP
    from vopy.algorithms.vogp_ad import VOGP_AD

    spec = case["cone"]
    order, W = _W(spec)
    m = W.shape[1]
    labels = list(gen.cone_labels(spec))
    z, lb, feas = geom.ldp(W, np.ones(W.shape[0]))
    if not feas:
        return Result.indet(labels + ["ldp-infeasible"])
    d_ref = float(np.linalg.norm(z))
    if np.min(W @ z) < 1 - 1e-9 or d_ref - lb > 1e-8 * max(1, d_ref):
        return Result.indet(labels + ["oracle-gap"])
    for cls in (VOGP, VOGP_AD):
        u, d1 = cls.compute_u_star(SimpleNamespace(order=order, m=m))
        u = np.asarray(u, float)
        name = cls.__name__
        if u.shape != (m,) or not np.isfinite(u).all() or not np.isfinite(d1):
            return Result.violation(f"C17:ustar:{name}:shape-or-nan", f"u={u} d1={d1}", labels)
        if abs(np.linalg.norm(u) - 1) > 1e-9:
            return Result.violation(f"C17:ustar:{name}:not-unit", f"|u|={np.linalg.norm(u)}", labels)
        if np.min(W @ u) < -1e-9:
            return Result.violation(f"C17:ustar:{name}:outside-cone", f"W u={W @ u}", labels)
        if np.min(W @ (u * d1)) < 1 - TOL * max(1.0, d1):
            return Result.violation(f"C17:ustar:{name}:infeasible", f"W(u d1)={W @ (u * d1)} d1={d1} ref={d_ref} W={W.tolist()}", labels)
        if abs(d1 - d_ref) > TOL * max(1.0, d_ref):
            return Result.violation(f"C17:ustar:{name}:d1-not-minimal", f"d1={d1} ref={d_ref} (dual lb {lb}) W={W.tolist()}", labels)
        if np.linalg.norm(u - z / d_ref) > 1e-4:
            return Result.violation(f"C17:ustar:{name}:direction", f"u={u} ref={z / d_ref}", labels)
    diag = np.ones(m) / math.sqrt(m)
    nt = spec["kind"] != "comp"
    if np.linalg.norm(z / d_ref - diag) > 1e-3:
        labels.append("ustar-off-diagonal")
    return Result.ok(labels, nt)


def check_beta(case):
    from vopy.ordering_cone import ConeTheta2D

    deg = case["deg"]
    cone = ConeTheta2D(deg)
    th = math.radians(deg)
    exp = 1 / math.sin(th) if deg < 90 else 1.0
    labels = ["acute" if deg < 90 else "right-or-obtuse"]
    b = float(cone.beta)
    if abs(b - exp) > 1e-9 * exp:
        return Result.violation("C17:beta:value", f"deg={deg} beta={b} expected={exp}", labels)
    al = np.asarray(cone.alpha, float).flatten()
    if np.max(np.abs(b * al - 1)) > 1e-5 * max(1.0, b):
        return Result.violation("C17:beta:not-reciprocal-of-alpha", f"deg={deg} beta={b} alpha={al}", labels)
    return Result.ok(labels, abs(deg - 90) < 5 or deg < 20)


@st.composite
def st_cone_case(draw):
    return {"cone": draw(st.one_of(gen.st_bundled(), gen.st_diag_cone(), gen.st_diag_cone()))}


def st_beta():
    return st.one_of(st.sampled_from([1.0, 5.0, 45.0, 60.0, 89.0, 89.9, 89.999, 90.0, 90.001, 90.1, 91.0, 120.0, 135.0, 179.0]),
                     st.floats(1.0, 179.0)).map(lambda d: {"deg": d})


COMPONENTS = [
    Component("alpha_vs_nnls", check_alpha, strategy=st_cone_case, quick=500, thorough=12000,
              rule="alpha of OrderingCone vs || P_C(w_n) || with primal/dual certificates"),
    Component("ustar_vs_ldp", check_ustar, strategy=st_cone_case, quick=500, thorough=12000,
              rule="VOGP/VOGP_AD.compute_u_star vs least-distance programme min ||z||, Wz>=1"),
    Component("beta_closed_form", check_beta, strategy=st_beta, quick=300, thorough=5000,
              rule="ConeTheta2D.beta vs 1/sin(theta) / 1 and beta*alpha=1; non-trivial = within 5 deg of 90 or below 20 deg"),
]
