"""C19 - gaps, eps-coverage, eps-F1 and hypervolume agree with their geometric definitions."""
from __future__ import annotations

import math

import numpy as np
from hypothesis import strategies as st

from vverif import gen
from vverif.core import Component, Result
from vverif.harness import data as hdata
from vverif.oracles import geom

RULE = ("cases = (cone, value set, eps, predicted index set); gap oracle = min_n w_n.d/alpha_n with NNLS alpha plus the definitional check "
        "(shifted copies along sampled unit cone directions stay dominated below the gap, the maximising direction breaks it above); "
        "coverage oracle = least-distance programme with dual bound; F1 recomputed from these + laws; hypervolume vs independent sweep. "
        "non-trivial = value set with >=1 dominated point with positive gap, eps within a factor 2 of a critical distance, or a "
        "predicted set that is neither the truth nor empty")
ASSUMPTIONS = ["eps is drawn at relative distance >= 1% from every critical coverage distance / gap; decisions within 1e-3*scale of a "
               "critical value are indeterminate (solver band, as C10)", "cones pointed and solid; rows need not be unit vectors (hypervolume component: unit rows, K<=3)"]


# is_covered solves a conic programme with default solver settings: feasibility is accepted at an absolute tolerance of about
# 1e-8, amplified by the conditioning of very acute cones (x60 for a 1-degree cone).  Below this no verdict is demanded.
SOLVER_ABS = 1e-6


def _W(spec):
    order = gen.make_order(spec)
    return order, np.asarray(order.ordering_cone.W, float)


def _values(case):
    """(values as passed to the library, values before the translation): gaps and coverage depend on differences only,
    so bands and eps are scaled by the un-translated values."""
    V0 = np.array(case["values"], float)
    off = np.array(case.get("offset") or [0.0] * V0.shape[1], float)
    V = V0 + off
    if case.get("int_dtype") and np.all(V == np.round(V)):
        # whole-number objective values handed over as an integer array (counts, ranks): the geometric quantities are
        # the same as for the equal float array
        V = V.astype(np.int64)
    return V, V0


def oracle_gaps(W, V):
    al, lb, ub = geom.cone_alpha(W)
    n = len(V)
    g = np.zeros(n)
    arg = np.zeros(n, int)
    for i in range(n):
        for j in range(n):
            f = W @ (V[j] - V[i])
            mij = float(np.min(np.maximum(f, 0) / al))
            if mij > g[i]:
                g[i], arg[i] = mij, j
    return g, arg, al


def cone_unit_dirs(W, extra):
    """Unit vectors of C: projections of the facet normals (the maximisers) and of random vectors."""
    out = []
    from scipy.optimize import nnls

    for v in list(W) + list(extra):
        lam, _ = nnls(W.T, -np.asarray(v, float))
        p = v + W.T @ lam
        if np.linalg.norm(p) > 1e-9 and np.min(W @ p) > -1e-10:
            out.append(p / np.linalg.norm(p))
    return out


def check_gap(case):
    from vopy.utils import get_delta, get_smallmij

    spec = case["cone"]
    order, W = _W(spec)
    V, V0 = _values(case)
    labels = list(gen.cone_labels(spec)) + (["far-from-origin"] if case.get("offset") else [])
    if V.dtype.kind == "i":
        labels.append("integer-dtype-values")
    alpha = order.ordering_cone.alpha
    got = np.asarray(get_delta(V.copy(), W, alpha), float)
    n = len(V)
    if got.shape != (n, 1):
        return Result.violation("C19:gap:shape", f"{got.shape}", labels)
    ref, arg, al = oracle_gaps(W, V)
    scale = max(1.0, float(np.abs(V0).max()))
    if np.max(np.abs(got[:, 0] - ref)) > 1e-6 * scale:
        i = int(np.argmax(np.abs(got[:, 0] - ref)))
        return Result.violation("C19:gap:value", f"design {i}: get_delta {got[i, 0]} oracle {ref[i]} values={V.tolist()} W={W.tolist()}", labels)
    # pairwise routine
    for i, j in case["pairs"]:
        i, j = i % n, j % n
        f = W @ (V[j] - V[i])
        exp = float(np.min(np.maximum(f, 0) / al))
        g = float(get_smallmij(V[i].copy(), V[j].copy(), W, alpha))
        if abs(g - exp) > 1e-6 * scale:
            return Result.violation("C19:gap:m_ij", f"m({i},{j})={g} oracle {exp}", labels)
    # definitional check of the oracle value itself (guards the oracle AND states the property's definition)
    dirs = cone_unit_dirs(W, case["dirs"])
    pos = False
    for i in range(n):
        gi = float(got[i, 0])
        interior_dominated = any(np.min(W @ (V[j] - V[i])) > 1e-9 * scale for j in range(n) if j != i)
        if (gi > 1e-7 * scale) != interior_dominated and abs(gi) > 1e-7 * scale:
            return Result.violation("C19:gap:zero-iff-not-interior-dominated", f"design {i} gap {gi}", labels)
        if gi > 1e-6 * scale:
            pos = True
            j = arg[i]
            for u in dirs:
                if np.min(W @ (V[j] - (V[i] + 0.999 * gi * u))) < -1e-9 * scale:
                    return Result.violation("C19:gap:too-large", f"design {i} gap {gi}: shifted by 0.999 gap along {u.tolist()} not dominated by {j}", labels)
            # above the gap every dominator is broken by some unit cone direction
            for jj in range(n):
                if jj == i:
                    continue
                if all(np.min(W @ (V[jj] - (V[i] + 1.001 * gi * u))) >= 1e-9 * scale for u in dirs):
                    return Result.violation("C19:gap:too-small", f"design {i} gap {gi}: design {jj} still dominates at 1.001 gap along all tested directions", labels)
    if pos:
        labels.append("positive-gap")
    return Result.ok(labels, pos and n >= 3)


def check_cover(case):
    from vopy.utils import get_uncovered_set, get_uncovered_size, is_covered

    spec = case["cone"]
    order, W = _W(spec)
    V, V0 = _values(case)
    n = len(V)
    labels = list(gen.cone_labels(spec)) + (["far-from-origin"] if case.get("offset") else [])
    scale = max(1e-9, float(np.abs(V0).max()))
    # critical distances
    dist = np.zeros((n, n))
    for i in range(n):
        for j in range(n):
            ub, lb = geom.cover_distance(W, V[i], V[j])
            if not np.isfinite(ub) or ub - lb > 1e-7 * max(1.0, scale):
                return Result.indet(labels + ["oracle-gap"])
            dist[i, j] = ub
    crit = sorted(set(np.round(dist[dist > 1e-9 * scale], 12).tolist()))
    eps = case["eps_sel"]
    if eps[0] == "abs":
        e = eps[1] * scale
    else:
        if not crit:
            e = scale * 0.1
        else:
            e = crit[eps[1] % len(crit)] * eps[2]
    band = 1e-3 * max(scale, e) + SOLVER_ABS  # relative accuracy of the SCS fallback (as C10) + absolute solver tolerance
    near = np.abs(dist - e) <= np.maximum(band, 0.009 * dist)
    nt = False
    exp = dist <= e
    for i, j in case["pairs"]:
        i, j = i % n, j % n
        if near[i, j]:
            continue
        got = bool(is_covered(V[i].copy(), V[j].copy(), e, W))
        if got != bool(exp[i, j]):
            return Result.violation(f"C19:cover:{'false-negative' if exp[i, j] else 'false-positive'}",
                                    f"is_covered(v{i},v{j},eps={e}) = {got}, cover distance {dist[i, j]} values={V.tolist()} W={W.tolist()}", labels)
        if 0 < dist[i, j] and 0.5 <= e / dist[i, j] <= 2:
            nt = True
    P = sorted(set(k % n for k in case["p"]))
    Ph = sorted(set(k % n for k in case["ph"]))
    if not near[np.ix_(P, Ph)].any():
        unc = [i for i in P if not any(exp[i, j] for j in Ph)]
        got = list(get_uncovered_set(P, Ph, V.copy(), e, W))
        if [int(x) for x in got] != unc:
            return Result.violation("C19:cover:uncovered-set", f"got {got} expected {unc} eps={e} values={V.tolist()}", labels)
        cnt = get_uncovered_size(V[P], V[Ph], e, W)
        if int(cnt) != len(unc):
            return Result.violation("C19:cover:uncovered-size", f"got {cnt} expected {len(unc)}", labels)
        labels.append("uncovered>0" if unc else "all-covered")
    return Result.ok(labels, nt)


def check_f1(case):
    from vopy.utils.evaluate import calculate_epsilonF1_score

    spec = case["cone"]
    order, W = _W(spec)
    V, V0 = _values(case)
    n = len(V)
    labels = list(gen.cone_labels(spec)) + (["far-from-origin"] if case.get("offset") else [])
    scale = max(1e-9, float(np.abs(V0).max()))
    ds = hdata.make_dataset_class(np.arange(n)[:, None] / max(1, n), V)()
    if V.dtype.kind == "i":
        ds.out_data = V.copy()
        labels.append("integer-dtype-values")
    # history independence: a score must not depend on what was scored before - first score a different value set of the
    # same shape, placed at the same offset (memoised intermediate results keyed on "close" data would leak)
    if case.get("decoy"):
        Vd = np.array([case["decoy"][k % len(case["decoy"])] for k in range(n)], float)[:, : V.shape[1]] + (V - V0)[0]
        dsd = hdata.make_dataset_class(np.arange(n)[:, None] / max(1, n), Vd)()
        try:
            calculate_epsilonF1_score(dsd, order, np.array([0], dtype=int), np.array(list(range(n)), dtype=int), 0.1 * scale)
        except Exception:  # noqa: BLE001 - the decoy call is only there to leave state behind
            pass
        labels.append("after-decoy-call")
    D = geom.dominance_matrix(V, W)
    strict = D & ~D.T
    Vf = np.abs((V[:, None, :] - V[None, :, :]) @ W.T)
    if np.any((Vf < 1e-9 * scale) & (np.abs(V[:, None, :] - V[None, :, :]).max(-1) > 0)[:, :, None]):
        return Result.indet(labels + ["boundary-pair"])
    true = [i for i in range(n) if not strict[:, i].any()]
    gaps, _, _ = oracle_gaps(W, V)
    dist = np.zeros((n, n))
    for i in range(n):
        for j in range(n):
            ub, lb = geom.cover_distance(W, V[i], V[j])
            if not np.isfinite(ub) or ub - lb > 1e-7 * max(1.0, scale):
                return Result.indet(labels + ["oracle-gap"])
            dist[i, j] = ub
    crit = sorted(set(np.round(np.concatenate([dist[dist > 1e-9 * scale], gaps[gaps > 1e-9 * scale]]), 12).tolist()))
    sel = case["eps_sel"]
    e1 = (sel[1] * scale) if sel[0] == "abs" or not crit else crit[sel[1] % len(crit)] * sel[2]
    e2 = e1 * case["eps_up"]
    pred_kind = case["pred_kind"]
    if pred_kind == "truth":
        pred = list(true)
    elif pred_kind == "empty":
        pred = []
    elif pred_kind == "all":
        pred = list(range(n))
    else:
        pred = sorted(set(k % n for k in case["pred"]))
    labels.append("pred:" + pred_kind)

    def f1_ref(e):
        band = 1e-3 * max(scale, e) + SOLVER_ABS
        missed = [i for i in true if i not in pred]
        if missed and pred and (np.abs(dist[np.ix_(missed, pred)] - e) <= np.maximum(band, 0.009 * dist[np.ix_(missed, pred)])).any():
            return None
        if pred and (np.abs(gaps[pred] - e) <= 1e-6 * scale + 1e-9).any():
            return None
        unc = sum(1 for i in missed if not any(dist[i, j] <= e for j in pred))
        tp = sum(1 for i in pred if gaps[i] <= e)
        fp = len(pred) - tp
        den = 2 * tp + fp + unc
        return None if den == 0 else 2 * tp / den

    def call(pred_arg, e):
        return float(calculate_epsilonF1_score(ds, order, np.array(true, dtype=int), pred_arg, e))

    vals = []
    for e in (e1, e2):
        ref = f1_ref(e)
        if ref is None:
            vals.append(None)
            continue
        got = call(np.array(pred, dtype=int), e)
        if not (0.0 <= got <= 1.0) or not math.isfinite(got):
            return Result.violation("C19:f1:range", f"f1={got}", labels)
        if abs(got - ref) > 1e-9:
            return Result.violation("C19:f1:value", f"f1={got} expected {ref} eps={e} true={true} pred={pred} gaps={gaps.tolist()} values={V.tolist()} W={W.tolist()}", labels)
        if pred_kind == "truth" and got != 1.0:
            return Result.violation("C19:f1:truth-not-1", f"f1={got}", labels)
        # order of predicted indices and container type must not matter
        if len(pred) > 1:
            perm = [pred[k] for k in np.argsort(case["perm"][: len(pred)] + list(range(len(pred) - len(case["perm"][: len(pred)]))))]
            g2 = call(list(perm), e)
            if abs(g2 - got) > 1e-12:
                return Result.violation("C19:f1:order-dependent", f"{got} vs {g2} pred={pred} perm={perm}", labels)
        vals.append(got)
    if vals[0] is not None and vals[1] is not None and vals[1] < vals[0] - 1e-12:
        return Result.violation("C19:f1:not-monotone-in-eps", f"f1({e1})={vals[0]} > f1({e2})={vals[1]}", labels)
    if vals[0] is None and vals[1] is None:
        return Result.indet(labels + ["band"])
    return Result.ok(labels, pred_kind in ("subset",) and 0 < len(pred) and set(pred) != set(true))


# ------------------------------------------------------------------ hypervolume
def hv_ref(points, ref):
    """Independent hypervolume (maximisation, dominated region above ref): slicing on the last axis."""
    P = np.asarray(points, float)
    P = P[(P > ref).all(axis=1)] if len(P) else P
    if len(P) == 0:
        return 0.0
    d = P.shape[1]
    if d == 1:
        return float(P[:, 0].max() - ref[0])
    order = np.argsort(-P[:, -1])
    P = P[order]
    vol, prev = 0.0, None
    for k in range(len(P)):
        z = P[k, -1]
        znext = P[k + 1, -1] if k + 1 < len(P) else ref[-1]
        if z == znext:
            continue
        vol += hv_ref(P[: k + 1, :-1], ref[:-1]) * (z - znext)
    return float(vol)


def check_hv(case):
    import torch

    import vopy.utils.evaluate as ev
    from vopy.maximization_problem import ContinuousProblem

    spec = case["cone"]
    order, W = _W(spec)
    m = W.shape[1]
    labels = list(gen.cone_labels(spec)) + [f"npts={case['npts']}"]
    coef = np.array(case["coef"], float).reshape(m, 3)

    class Prob(ContinuousProblem):
        in_dim = 2
        out_dim = m
        bounds = [(0.0, 1.0)] * 2

        def evaluate_true(self, x):
            cols = []
            for j in range(m):
                a, b, c = coef[j]
                cols.append(np.sin(a * x[:, 0] + b) + c * x[:, 1] ** 2 - (x[:, 0] - 0.5 * j) ** 2)
            return np.stack(cols, axis=1)

    prob = Prob(0.01)
    rs = np.random.RandomState(case["seed"])
    pert = case["pert"]

    class StubModel:
        def predict(self, x):
            f = prob.evaluate(x, noisy=False)
            y = f + pert * rs.standard_normal(f.shape) + np.array(case["bias"])[None, :m]
            return y, np.tile(np.eye(m), (len(x), 1, 1))

    log = []
    RealHV = ev.Hypervolume

    class RecHV(RealHV):
        def compute(self, pts):
            v = super().compute(pts)
            log.append((np.asarray(self.ref_point), np.asarray(pts), float(v)))
            return v

    real_sobol = ev.generate_sobol_samples
    holder = {}

    def sobol(dim, n):
        x = real_sobol(dim, case["npts"])
        holder["x"] = x
        return x

    ev.Hypervolume, ev.generate_sobol_samples = RecHV, sobol
    try:
        from vopy.utils import set_seed

        set_seed(case["seed"])
        try:
            val = ev.calculate_hypervolume_discrepancy_for_model(order, prob, StubModel())
            raised = False
        except AssertionError:
            val, raised = None, True
    finally:
        ev.Hypervolume, ev.generate_sobol_samples = RealHV, real_sobol
    if len(log) != 2:
        return Result.violation("C19:hv:calls", f"{len(log)} hypervolume computations", labels)
    (ref1, p_true, hv_t), (ref2, p_pred, hv_p) = log
    if hv_t < hv_p - 1e-9 * max(1.0, abs(hv_t)):
        return Result.violation("C19:hv:true-smaller-than-pred", f"hv_true {hv_t} hv_pred {hv_p}", labels)
    x = holder["x"]
    fW = prob.evaluate(x, noisy=False) @ W.T
    ref = fW.min(axis=0)
    if not np.allclose(ref1, ref) or not np.allclose(ref2, ref):
        return Result.violation("C19:hv:reference-point", f"{ref1} vs {ref}", labels)
    # predicted points must be a subset of the true value cloud (f_W rows), true ones the Pareto front
    rows = {tuple(np.round(r, 12)) for r in fW}
    if any(tuple(np.round(r, 12)) not in rows for r in p_pred) or any(tuple(np.round(r, 12)) not in rows for r in p_true):
        return Result.violation("C19:hv:points-not-from-truth", "", labels)
    it, ip = hv_ref(p_true, ref), hv_ref(p_pred, ref)
    itall = hv_ref(fW, ref)
    tol = 1e-7 * max(1.0, itall)
    if abs(it - hv_t) > tol or abs(ip - hv_p) > tol:
        return Result.violation("C19:hv:value", f"botorch {hv_t},{hv_p} independent {it},{ip}", labels)
    if abs(it - itall) > tol:
        return Result.violation("C19:hv:true-front-not-maximal", f"front {it} all points {itall}", labels)
    if raised:
        if hv_t - hv_p > 1e-4 + 1e-12:
            return Result.violation("C19:hv:spurious-assert", f"diff {hv_t - hv_p}", labels)
        return Result.ok(labels + ["equal-hypervolumes"], False)
    if abs(val - math.log(hv_t - hv_p)) > 1e-9:
        return Result.violation("C19:hv:not-log-difference", f"{val} vs log({hv_t - hv_p})", labels)
    return Result.ok(labels, True)


# ------------------------------------------------------------------ strategies
@st.composite
def st_values(draw, m, nmax=8):
    vals = draw(_st_values_raw(m, nmax))
    if len(vals) >= 3 and draw(st.sampled_from([False, False, True])):
        # an exact duplicate of another row (tied designs; a duplicated Pareto-optimal value with a design below it)
        i, j = draw(st.integers(0, len(vals) - 1)), draw(st.integers(0, len(vals) - 1))
        if i != j:
            vals[i] = list(vals[j])
    return vals


@st.composite
def _st_values_raw(draw, m, nmax=8):
    n = draw(st.integers(2, nmax))
    style = draw(st.sampled_from(["lattice", "cont", "cont", "near", "int"]))
    if style == "int":
        return [[float(draw(st.integers(-6, 6))) for _ in range(m)] for _ in range(n)]
    if style == "lattice":
        return [[draw(st.integers(-8, 8)) / 4 for _ in range(m)] for _ in range(n)]
    if style == "cont":
        sc = draw(gen.st_logfloat(0.1, 10))
        return [[draw(st.floats(-1, 1)) * sc for _ in range(m)] for _ in range(n)]
    base = [draw(st.floats(-1, 1)) for _ in range(m)]
    return [[b + draw(st.floats(-0.2, 0.2)) for b in base] for _ in range(n)]


def st_unit_cone(m=None):
    # despite the historical name: bundled and unit-normal cones plus matrices with non-unit rows (dyadic, integer
    # dtype, rescaled rows, sheared) - the gap / coverage definitions do not depend on how the cone is written
    return st.one_of(gen.st_bundled(m), gen.st_diag_cone(m), gen.st_diag_cone(m), gen.st_dyadic_cone(m, 2), gen.st_int_cone(m, 2),
                     gen.st_rescaled_cone(m, 2), gen.st_skew_cone(m, 1))


@st.composite
def st_far(draw, m):
    off = draw(st.sampled_from([0, 0, 0, 1000, 1000000]))
    return [draw(st.sampled_from([1.0, -1.0])) * off for _ in range(m)] if off else None


@st.composite
def st_gap(draw):
    spec = draw(st_unit_cone())
    m = gen.spec_dim(spec)
    vals = draw(st_values(m))
    return {"cone": spec, "values": vals, "offset": draw(st_far(m)), "int_dtype": draw(st.booleans()),
            "pairs": [[draw(st.integers(0, 7)), draw(st.integers(0, 7))] for _ in range(4)],
            "dirs": [[draw(st.floats(-1, 1)) for _ in range(m)] for _ in range(6)]}


def st_eps_sel():
    return st.one_of(st.tuples(st.just("abs"), st.sampled_from([0.0, 0.01, 0.1, 0.5, 2.0])),
                     st.tuples(st.just("crit"), st.integers(0, 50), st.sampled_from([0.5, 0.9, 0.98, 1.02, 1.1, 2.0]))).map(list)


@st.composite
def st_cover(draw):
    spec = draw(st_unit_cone())
    m = gen.spec_dim(spec)
    vals = draw(st_values(m, 6))
    ints = st.integers(0, 5)
    return {"cone": spec, "values": vals, "offset": draw(st_far(m)), "eps_sel": draw(st_eps_sel()),
            "pairs": [[draw(ints), draw(ints)] for _ in range(5)],
            "p": draw(st.lists(ints, min_size=1, max_size=4)), "ph": draw(st.lists(ints, min_size=0, max_size=4))}


@st.composite
def st_f1(draw):
    spec = draw(st_unit_cone())
    m = gen.spec_dim(spec)
    vals = draw(st_values(m, 7))
    return {"cone": spec, "values": vals, "offset": draw(st_far(m)), "int_dtype": draw(st.booleans()),
            "decoy": draw(st.one_of(st.none(), st_values(m, 7))),
            "eps_sel": draw(st_eps_sel()), "eps_up": draw(st.sampled_from([1.0, 1.5, 3.0, 10.0])),
            "pred_kind": draw(st.sampled_from(["truth", "empty", "all", "subset", "subset", "subset"])),
            "pred": draw(st.lists(st.integers(0, 6), min_size=1, max_size=6)),
            "perm": draw(st.lists(st.integers(0, 100), min_size=0, max_size=7))}


@st.composite
def st_hv(draw):
    # hypervolume lives in W-space (K columns): keep K <= 3 so both the library's and the independent
    # computation stay polynomial
    spec = draw(st.one_of(gen.st_theta(), st.just({"kind": "comp", "m": 2}), gen.st_diag_cone(2, 0), gen.st_diag_cone(2, 1),
                          st.sampled_from([{"kind": "comp", "m": 3}, {"kind": "c3d", "type": "acute"}, {"kind": "c3d", "type": "obtuse"}]),
                          gen.st_diag_cone(3, 0)))
    m = gen.spec_dim(spec)
    return {"cone": spec, "npts": draw(st.sampled_from([32, 64, 128])), "coef": [draw(st.floats(-3, 3)) for _ in range(3 * m)],
            "pert": draw(st.sampled_from([0.0, 0.05, 0.3, 1.0])), "bias": [draw(st.floats(-1, 1)) for _ in range(3)],
            "seed": draw(st.integers(0, 2**31 - 1))}


COMPONENTS = [
    Component("gap_vs_definition", check_gap, strategy=st_gap, quick=600, thorough=15000, rule="2..8 values, bundled + random unit-normal cones"),
    Component("coverage_vs_ldp", check_cover, strategy=st_cover, quick=300, thorough=8000, rule="eps at 0.5..2 x a critical cover distance or absolute"),
    Component("f1_vs_definition_and_laws", check_f1, strategy=st_f1, quick=250, thorough=6000,
              rule="true set = brute-force Pareto set; predicted = truth / empty / all / arbitrary subset; two eps values for monotonicity"),
    Component("hypervolume", check_hv, strategy=st_hv, quick=64, thorough=1500,
              rule="analytic 2-input problems, stub model = truth + perturbation, 32..128 Sobol points (sampler rebound in the module)"),
]
