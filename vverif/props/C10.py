"""C10 - region 'is covered' decides  exists z in R1, z' in R2 : z' dominates z by the slack."""
from __future__ import annotations

import numpy as np
from hypothesis import strategies as st

from vverif import gen
from vverif import gen_regions as gr
from vverif.core import Component, Result
from vverif.oracles import geom
from vverif.props.C09 import _slack_arr, st_slack

RULE = ("case = (cone, region pair, slack), second region placed so that the certified cover margin M = max_{z,z'} min_n "
        "w_n.(z'-z-slack) is +-{1,.3,.1,.03,.01,.003} x scale; oracle = LP (HiGHS) for boxes / convex dual + primal recovery for "
        "ellipsoids, both with primal witness and dual separating functional re-verified by arithmetic (lb <= M <= ub); "
        "non-trivial = |M| <= 10% of scale, or K>m, or vector slack, or region size <= 1e-3")
ASSUMPTIONS = ["verdict demanded only when the certified bracket [lb,ub] lies outside +-tau, tau = 1e-9 + 1e-3*scale (accuracy of the code's SCS fallback path, measured)",
               "slacks non-negative"]


LEVELS = [1.0, 0.3, 0.1, 0.03, 0.01, 0.003]


def tau(scale, degenerate=False):
    # Measured on the pinned tree (DESIGN.md 7): on marginally infeasible problems the default solver
    # raises SolverError and the code takes its SCS fallback (default accuracy 1e-4), which accepts
    # violations up to ~1e-5 (scale>=1) / ~1e-4*scale (tiny regions).  The band is the fallback's tolerance.
    return 1e-9 + 1e-3 * scale


def _finish(got, lb, ub, scale, kind, detail, labels, nt_extra, degenerate=False):
    t = tau(scale, degenerate)
    if lb > t:
        exp = True
    elif ub < -t:
        exp = False
    else:
        return Result.indet(labels + ["band-or-gap"])
    if got != exp:
        return Result.violation(f"C10:{kind}:{'false-negative' if exp else 'false-positive'}",
                                f"got {got} margin in [{lb:.3e},{ub:.3e}] scale {scale:.3e} " + detail, labels)
    rel = min(abs(lb), abs(ub)) / scale
    labels.append("margin<=1e-3" if rel <= 1e-3 else "margin<=1e-1" if rel <= 0.1 else "margin>1e-1")
    if scale <= 1e-3:
        labels.append("tiny-region")
    return Result.ok(labels, rel <= 0.1 or nt_extra or scale <= 1e-3)


def check_rect(case):
    from vopy.confidence_region import confidence_region_is_covered

    spec = case["cone"]
    order = gen.make_order(spec)
    W = np.asarray(order.ordering_cone.W, float)
    r1, r2, s = case["r1"], case["r2"], case["slack"]
    m = W.shape[1]
    svec = np.broadcast_to(np.asarray(s, float), (m,)) if not isinstance(s, list) else np.array(s, float)
    labels = list(gen.cone_labels(spec)) + ["slack:" + ("vector" if isinstance(s, list) else "zero" if s == 0 else "scalar")]
    R1, R2, r1, r2 = gr.region_pair(case, "rect", lambda a, b: confidence_region_is_covered(order, a, b, _slack_arr(s)))
    if case.get("first"):
        labels.append("objects-updated-after-a-comparison")
        labels.append("refined-by:" + case["first"].get("mode", "update"))
    if case.get("same_object"):  # a region compared with itself, passed as one object
        R2 = R1
        labels.append("same-object-twice")
    got = bool(confidence_region_is_covered(order, R1, R2, _slack_arr(s)))
    lo = np.array(r2["lo"]) - np.array(r1["hi"])
    hi = np.array(r2["hi"]) - np.array(r1["lo"])
    lb, ub, _ = geom.box_cone_margin(W, lo, hi, svec)
    scale = gr.region_scale(r1, r2, slack=svec)
    degenerate = any(a == b for r in (r1, r2) for a, b in zip(r["lo"], r["hi"]))
    if degenerate:
        labels.append("zero-width-edge")
    return _finish(got, lb, ub, scale, "rect", f"W={W.tolist()} r1={r1} r2={r2} slack={s}", labels,
                   W.shape[0] > m or isinstance(s, list), degenerate)


def check_ell(case):
    from vopy.confidence_region import confidence_region_is_covered

    spec = case["cone"]
    order = gen.make_order(spec)
    W = np.asarray(order.ordering_cone.W, float)
    e1, e2, s = case["r1"], case["r2"], case["slack"]
    labels = list(gen.cone_labels(spec)) + ["slack:" + ("vector" if isinstance(s, list) else "zero" if s == 0 else "scalar")]
    E1, E2, e1, e2 = gr.region_pair(case, "ell", lambda a, b: confidence_region_is_covered(order, a, b, _slack_arr(s)))
    if case.get("first"):
        labels.append("objects-updated-after-a-comparison")
        labels.append("refined-by:" + case["first"].get("mode", "update"))
    if case.get("same_object"):
        E2 = E1
        labels.append("same-object-twice")
    got = bool(confidence_region_is_covered(order, E1, E2, _slack_arr(s)))
    nrm = np.linalg.norm(W, axis=1)
    Wn = W / nrm[:, None]
    sl = (np.array(s, float) if isinstance(s, list) else np.full(len(W), float(s))) / nrm
    lb, ub = geom.ell_cover_margin(Wn, np.array(e1["c"]), np.array(e1["S"]), e1["a"], np.array(e2["c"]), np.array(e2["S"]), e2["a"], sl)
    scale = gr.region_scale(e1, e2, slack=s)
    return _finish(got, lb, ub, scale, "ell", f"W={W.tolist()} e1={e1} e2={e2} slack={s}", labels,
                   W.shape[0] > W.shape[1] or isinstance(s, list))


@st.composite
def st_rect_case(draw):
    spec = draw(gen.st_cone(max_extra=3))
    W = gen.cone_W(spec) if spec["kind"] in ("W", "diag") else np.asarray(gen.make_order(spec).ordering_cone.W)
    m = W.shape[1]
    scale = draw(gen.st_logfloat(1e-4, 1e2))
    r1 = draw(gr.st_rect(m, scale * draw(st.sampled_from([1.0, 1.0, 0.1, 0.01]))))
    r2 = draw(gr.st_rect(m, scale * draw(st.sampled_from([1.0, 1.0, 0.1, 0.01]))))
    s = draw(st_slack(m, scale))
    svec = np.broadcast_to(np.asarray(s, float), (m,)) if not isinstance(s, list) else np.array(s, float)
    v = gr.interior_dir(W)
    l1, u1 = np.array(r1["lo"]), np.array(r1["hi"])
    l2, u2 = np.array(r2["lo"]), np.array(r2["hi"])

    def f(t):
        lb, ub, _ = geom.box_cone_margin(W, l2 + t * v - u1, u2 + t * v - l1, svec)
        return (lb + ub) / 2

    target = draw(st.sampled_from([1, -1])) * draw(st.sampled_from(LEVELS)) * scale
    t = gr.solve_shift(f, target, -1e4 * scale, 1e4 * scale)
    off = draw(gr.st_offset(m, big=False))
    return {"cone": spec, "r1": gr.shift_region(r1, off), "r2": gr.shift_region({"lo": (l2 + t * v).tolist(), "hi": (u2 + t * v).tolist()}, off), "slack": s}


@st.composite
def st_ell_case(draw, small=False):
    spec = draw(gen.st_cone(max_extra=3))
    W = gen.cone_W(spec) if spec["kind"] in ("W", "diag") else np.asarray(gen.make_order(spec).ordering_cone.W)
    K, m = W.shape
    if small:
        # small extents described by a large radius times a tiny, strongly correlated covariance (entries <= 1e-8):
        # absolute tolerances on covariance entries must not change the region
        scale = draw(gen.st_logfloat(3e-4, 1e-3))
        e1 = draw(gr.st_ell(m, scale, a_range=(10, 50), always_rotated=True))
        e2 = draw(gr.st_ell(m, scale, a_range=(10, 50), always_rotated=True))
    else:
        scale = draw(gen.st_logfloat(1e-4, 1e2))
        e1 = draw(gr.st_ell(m, scale * draw(st.sampled_from([1.0, 1.0, 0.1]))))
        e2 = draw(gr.st_ell(m, scale * draw(st.sampled_from([1.0, 1.0, 0.1]))))
    s = draw(st_slack(K, scale))
    v = gr.interior_dir(W)
    nrm = np.linalg.norm(W, axis=1)
    Wn = W / nrm[:, None]
    sl = (np.array(s, float) if isinstance(s, list) else np.full(K, float(s))) / nrm
    c2 = np.array(e2["c"])

    def f(t):
        lb, ub = geom.ell_cover_margin(Wn, np.array(e1["c"]), np.array(e1["S"]), e1["a"], c2 + t * v, np.array(e2["S"]), e2["a"], sl)
        return (lb + ub) / 2

    target = draw(st.sampled_from([1, -1])) * draw(st.sampled_from([0.1, 0.3, 1.0] if small else LEVELS)) * scale
    t = gr.solve_shift(f, target, -1e3 * scale, 1e3 * scale)
    off = [0.0] * m if small else draw(gr.st_offset(m, big=False))
    return {"cone": spec, "r1": gr.shift_region(e1, off), "r2": gr.shift_region(dict(e2, c=(c2 + t * v).tolist()), off), "slack": s}


@st.composite
def st_self(draw, kind):
    """A region against itself (one object passed twice); the slack, relative to the region's size, decides the answer."""
    spec = draw(gen.st_cone(max_extra=3))
    W = gen.cone_W(spec) if spec["kind"] in ("W", "diag") else np.asarray(gen.make_order(spec).ordering_cone.W)
    K, m = W.shape
    scale = draw(gen.st_logfloat(1e-3, 1e2))
    r = draw(gr.st_rect(m, scale)) if kind == "rect" else draw(gr.st_ell(m, scale))
    s = draw(st_slack(m if kind == "rect" else K, scale * draw(st.sampled_from([0.03, 0.3, 1.0, 3.0]))))
    return {"cone": spec, "r1": r, "r2": r, "slack": s, "same_object": True}


@st.composite
def st_updated(draw, kind):
    small = kind == "ell" and draw(st.booleans())
    case = draw(st_rect_case()) if kind == "rect" else draw(st_ell_case(small=small))
    m = len(case["r1"]["lo"] if kind == "rect" else case["r1"]["c"])
    if kind == "ell":  # extent of the first ellipsoid, not its distance from the origin
        sc = case["r1"]["a"] * float(np.sqrt(np.max(np.diag(np.array(case["r1"]["S"])))))
    else:
        sc = max(1e-6, float(np.max(np.array(case["r1"]["hi"]) - np.array(case["r1"]["lo"]))))
    case["first"] = draw(gr.st_first_pair(kind, m, sc, small))
    return case


COMPONENTS = [
    Component("rect_margin_targeted", check_rect, strategy=st_rect_case, quick=1200, thorough=30000,
              rule="hyper-rectangles 1e-4..1e2 incl. zero-width edges; all cone classes; scalar/vector objective-space slack"),
    Component("ell_margin_targeted", check_ell, strategy=st_ell_case, quick=500, thorough=12000,
              rule="ellipsoids extents 1e-4..1e2, condition <=1e3, radius 0.1..50; per-facet slack"),
    Component("ell_small_correlated", check_ell, strategy=lambda: st_ell_case(small=True), quick=200, thorough=5000,
              rule="extents 1e-5..1e-3 written as radius 10..50 x rotated covariance with entries <= 1e-8; margins 0.1..1 x extent"),
    Component("rect_against_itself", check_rect, strategy=lambda: st_self("rect"), quick=200, thorough=5000,
              rule="one region object passed as both arguments; slack 0 .. 3 x its size"),
    Component("ell_against_itself", check_ell, strategy=lambda: st_self("ell"), quick=150, thorough=4000,
              rule="as rect_against_itself for ellipsoids"),
    Component("rect_updated_objects", check_rect, strategy=lambda: st_updated("rect"), quick=300, thorough=8000,
              rule="region objects built for another pair (or, with intersect_iteratively=True, around the case's pair), compared once, then moved to the case's pair through update() / intersect()"),
    Component("ell_updated_objects", check_ell, strategy=lambda: st_updated("ell"), quick=250, thorough=6000,
              rule="as rect_updated_objects for ellipsoids; half of them small correlated (covariances differing by < 1e-8)"),
]
