"""C15 - GP models return the exact posterior of exactly the data they hold."""
from __future__ import annotations

import numpy as np
from hypothesis import strategies as st

from vverif import gen
from vverif.core import Component, Result
from vverif.harness import data as hdata
from vverif.harness import models as hm

RULE = ("history = generated add_sample / update / clear_data / predict op list on each GP model class with hyper-parameters set from "
        "generated well-conditioned values; oracle = closed-form Gaussian conditioning in numpy on the harness's own record of the data "
        "held at the last update (kernel from the generated hyper-parameters, not from gpytorch); factory helpers: real training on <=10 "
        "points, hyper-parameters read back from the kernel modules. non-trivial = history with a single-point prediction, or unequal "
        "input/objective dimensions, or >=2 add batches before an update, or a clear, or matrix noise")
ASSUMPTIONS = ["hyper-parameters: lengthscale 0.2..2, outputscale 0.5..4, noise >= 1e-3, <= 50 training points (well conditioned)",
               "agreement demanded at 1e-6 relative", "correlated model never updated/predicted with zero samples (outside the stated domain)"]
RTOL = 1e-6


def _cmp(got, ref, scale):
    return np.max(np.abs(np.asarray(got, float) - ref)) <= RTOL * scale


def check_history(case):
    kind, d, m, noise = case["kind"], case["d"], case["m"], case["noise"]
    hyp = case["hyp"]
    model = hm.new_model(kind, d, m, noise)
    labels = [f"kind={kind}", f"d={d}", f"m={m}", "d!=m" if d != m else "d==m", "noise:" + ("matrix" if np.ndim(noise) else "scalar")]
    if case.get("reuse_buffers"):
        labels.append("caller-reuses-buffers")
    if kind == "list":
        acc = [([], []) for _ in range(m)]
    else:
        acc = ([], [])
    held = None
    known_f14 = None
    hyp_set = False
    adds_since_update = 0
    nt = d != m or bool(np.ndim(noise))
    n_pred = 0
    os_scale = max(np.max(np.abs(hyp.get("os", [1.0]))), 1.0) if kind != "cor" else float(
        np.max(np.abs(np.array(hyp["F"]) @ np.array(hyp["F"]).T + np.diag(hyp["v"]))))

    def held_arrays():
        if kind == "list":
            return [(np.array(x, float).reshape(-1, d), np.array(y, float)) for x, y in held]
        return np.array(held[0], float).reshape(-1, d), np.array(held[1], float).reshape(-1, m)

    for op in case["ops"]:
        k = op[0]
        if k == "add":
            X = np.array(op[1], float).reshape(-1, d)
            if kind == "list":
                y = np.array(op[2], float)
                dims = op[3]
                model.add_sample(X, y, dims if isinstance(dims, int) else list(dims))
                for i in range(len(X)):
                    j = dims if isinstance(dims, int) else dims[i]
                    acc[j][0].append(X[i].tolist())
                    acc[j][1].append(float(y[i]))
                if case.get("reuse_buffers"):  # the caller recycles its arrays: the model must hold what it was given
                    X[...] = 0.123
                    y[...] = -9.75
            else:
                Y = np.array(op[2], float).reshape(-1, m)
                model.add_sample(X, Y)
                acc[0].extend(X.tolist())
                acc[1].extend(Y.tolist())
                if case.get("reuse_buffers"):
                    X[...] = 0.123
                    Y[...] = -9.75
            adds_since_update += 1
        elif k == "clear":
            model.clear_data()
            acc = [([], []) for _ in range(m)] if kind == "list" else ([], [])
            labels.append("clear")
            nt = True
        elif k == "update":
            if kind == "cor" and len(acc[0]) == 0:
                continue  # outside the stated domain
            model.update()
            if not hyp_set:
                hm.set_hypers(model, kind, hyp)
                hyp_set = True
            held = [(list(x), list(y)) for x, y in acc] if kind == "list" else (list(acc[0]), list(acc[1]))
            if adds_since_update >= 2:
                labels.append(">=2-adds-before-update")
                nt = True
            adds_since_update = 0
        elif k == "predict":
            if held is None:
                continue
            Xs = np.array(op[1], float).reshape(-1, d)
            n_held = sum(len(t[0]) for t in held) if kind == "list" else len(held[0])
            try:
                mean, cov = model.predict(Xs.copy())
            except RuntimeError as e:
                if kind == "ind" and np.ndim(noise) and n_held == 0:
                    # specific signature: the prior of an independent model with full-matrix noise cannot be predicted
                    # known finding F14: remember it, keep exploring the rest of the history
                    known_f14 = f"RuntimeError: {str(e)[:200]}"
                    continue
                raise
            mean, cov = np.asarray(mean), np.asarray(cov)
            N = len(Xs)
            if N == 1:
                labels.append("N=1")
                nt = True
            if mean.shape != (N, m) or cov.shape != (N, m, m):
                return Result.violation(f"C15:{kind}:shape" + (":N=1" if N == 1 else ""),
                                        f"predict({N} points) -> mean {mean.shape}, cov {cov.shape}; expected ({N},{m}), ({N},{m},{m})", labels)
            rmean, rcov = hm.reference(kind, hyp, noise, held_arrays(), Xs)
            ydat = held_arrays()
            yscale = max([1.0] + [float(np.max(np.abs(y))) if len(y) else 0.0 for y in ([ydat[1]] if kind != "list" else [t[1] for t in ydat])]
                         + ([float(np.max(np.abs(hyp["c"])))] if kind == "list" else []))
            if not _cmp(mean, rmean, yscale):
                i = int(np.argmax(np.abs(mean - rmean).max(axis=1)))
                return Result.violation(f"C15:{kind}:mean", f"x*={Xs[i].tolist()} got {mean[i].tolist()} closed form {rmean[i].tolist()} "
                                        f"(held {len(ydat[0]) if kind != 'list' else [len(t[0]) for t in ydat]} samples)", labels)
            if not _cmp(cov, rcov, os_scale):
                i = int(np.argmax(np.abs(cov - rcov).reshape(N, -1).max(axis=1)))
                return Result.violation(f"C15:{kind}:covariance", f"x*={Xs[i].tolist()} got {cov[i].tolist()} closed form {rcov[i].tolist()}", labels)
            if np.min(np.diagonal(cov, axis1=1, axis2=2)) < -1e-9 * os_scale:
                return Result.violation(f"C15:{kind}:negative-variance", "", labels)
            n_pred += 1
    if hyp_set:
        r = _check_hyper_report(model, kind, hyp, d, m, labels)
        if r is not None:
            return r
    if known_f14 is not None:
        return Result.violation("C15:ind:matrix-noise-zero-samples-predict-raises", known_f14, labels)
    if n_pred == 0:
        return Result.ok(labels + ["no-predict"], False)
    return Result.ok(sorted(set(labels)), nt)


def _check_hyper_report(model, kind, hyp, d, m, labels):
    ls, var = model.get_lengthscale_and_var()
    ls, var = np.asarray(ls, float), np.asarray(var, float)
    if kind == "ind":
        exp_ls, exp_var = np.array(hyp["ls"], float).reshape(m, d), np.array(hyp["os"], float)
    elif kind == "list":
        exp_ls, exp_var = np.array(hyp["ls"], float).reshape(m, d), np.array(hyp["os"], float)
    else:
        exp_ls, exp_var = np.array(hyp["ls"], float), np.array(hyp["v"], float)
    if var.reshape(-1).shape != (m,) or not np.allclose(var.reshape(-1), exp_var, rtol=1e-6):
        return Result.violation(f"C15:{kind}:reported-variances", f"got {var.tolist()} kernel has {exp_var.tolist()} (m={m}, d={d})", labels)
    if kind == "cor":
        if not np.allclose(ls.reshape(-1), exp_ls, rtol=1e-6):
            return Result.violation("C15:cor:reported-lengthscales", f"got {ls.tolist()} kernel has {exp_ls.tolist()}", labels)
        if d != m:
            # one shared ARD kernel: the report has one entry per INPUT dimension, not per objective (F12)
            return Result.violation("C15:cor:lengthscale-not-per-objective",
                                    f"get_lengthscale_and_var() returns {ls.reshape(-1).shape[0]} lengthscales for m={m} objectives (d={d})", labels)
        return None
    if ls.reshape(m, -1).shape != (m, d) or ls.shape[0] != m or not np.allclose(ls.reshape(m, d), exp_ls, rtol=1e-6):
        return Result.violation(f"C15:{kind}:reported-lengthscales", f"got {ls.tolist()} kernel has {exp_ls.tolist()}", labels)
    return None


def check_factory(case):
    """The two train-and-freeze helpers: returned models are up to date with exactly their reported data."""
    from vopy.maximization_problem import DecoupledEvaluationProblem, ProblemFromDataset
    from vopy.models import (
        CorrelatedExactGPyTorchModel,
        IndependentExactGPyTorchModel,
        get_gpytorch_model_w_known_hyperparams,
        get_gpytorch_modellist_w_known_hyperparams,
    )
    from vopy.utils import set_seed

    kind, cnt, noise = case["kind"], case["cnt"], case["noise"]
    X = np.array(case["X"], float)
    Y = np.array(case["Y"], float)
    d, m = X.shape[1], Y.shape[1]
    labels = [f"kind={kind}", f"initial={cnt if cnt < 2 else '>=2'}", "d!=m" if d != m else "d==m"]
    ds = hdata.make_dataset_class(X, Y)()
    set_seed(case["seed"])
    if kind == "list":
        prob = DecoupledEvaluationProblem(ProblemFromDataset(ds, noise))
        model = get_gpytorch_modellist_w_known_hyperparams(prob, noise, cnt, X=X.copy(), Y=Y.copy())
    else:
        prob = ProblemFromDataset(ds, noise)
        cls = IndependentExactGPyTorchModel if kind == "ind" else CorrelatedExactGPyTorchModel
        model = get_gpytorch_model_w_known_hyperparams(cls, prob, noise, cnt, X=X.copy(), Y=Y.copy())
    hyp = hm.read_hypers(model, kind)
    data = hm.snapshot(model, kind)
    n_held = sum(len(t[0]) for t in data) if kind == "list" else len(data[0])
    if n_held != cnt:
        return Result.violation(f"C15:factory:{kind}:held-count", f"wrapper reports {n_held} samples, initial_sample_cnt={cnt}", labels)
    Xs = np.array(case["Xs"], float).reshape(-1, d)
    mean, cov = model.predict(Xs.copy())
    mean, cov = np.asarray(mean), np.asarray(cov)
    N = len(Xs)
    if mean.shape != (N, m) or cov.shape != (N, m, m):
        return Result.violation(f"C15:{kind}:shape" + (":N=1" if N == 1 else ""), f"mean {mean.shape} cov {cov.shape}", labels)
    rmean, rcov = hm.reference(kind, hyp, noise, data, Xs)
    sc = max(1.0, float(np.abs(Y).max()))
    vs = max(1.0, float(np.abs(rcov).max()))
    if not _cmp(mean, rmean, sc) or not _cmp(cov, rcov, vs):
        i = int(np.argmax(np.abs(mean - rmean).max(axis=1)))
        return Result.violation(f"C15:factory:{kind}:{'stale-posterior-with-0-initial-samples' if cnt == 0 else 'posterior'}",
                                f"model reports {n_held} held samples but predicts mean {mean[i].tolist()} (posterior of the held data: "
                                f"{rmean[i].tolist()}), var {np.diag(cov[i]).tolist()} vs {np.diag(rcov[i]).tolist()}", labels)
    r = _check_hyper_report(model, kind, hyp if kind != "cor" else hyp, d, m, labels)
    if r is not None:
        return r
    return Result.ok(labels, cnt == 0 or d != m or N == 1)


# ------------------------------------------------------------------ strategies
def _pt(d):
    return st.lists(st.one_of(st.floats(0, 1), st.sampled_from([0.0, 0.5, 1.0])), min_size=d, max_size=d)


@st.composite
def st_hyp(draw, kind, d, m):
    ls = lambda: float(f"{draw(gen.st_logfloat(0.2, 2.0)):.4g}")  # noqa: E731
    if kind == "ind":
        return {"ls": [[ls() for _ in range(d)] for _ in range(m)], "os": [draw(gen.st_logfloat(0.5, 4.0)) for _ in range(m)]}
    if kind == "cor":
        return {"ls": [ls() for _ in range(d)], "F": [[round(draw(st.floats(-1, 1)), 3) for _ in range(m)] for _ in range(m)],
                "v": [draw(gen.st_logfloat(0.05, 1.0)) for _ in range(m)]}
    return {"ls": [[ls() for _ in range(d)] for _ in range(m)], "os": [draw(gen.st_logfloat(0.5, 4.0)) for _ in range(m)],
            "c": [round(draw(st.floats(-2, 2)), 3) for _ in range(m)]}


@st.composite
def st_noise(draw, kind, m):
    if kind == "list" or draw(st.integers(0, 2)) > 0:
        return draw(gen.st_logfloat(1e-3, 1.0))
    A = np.array([[draw(st.floats(-0.5, 0.5)) for _ in range(m)] for _ in range(m)])
    D = A @ A.T + np.diag([draw(gen.st_logfloat(1e-3, 0.5)) for _ in range(m)])
    return np.round((D + D.T) / 2, 6).tolist()


@st.composite
def st_add(draw, kind, d, m, pool):
    n = draw(st.integers(1, 6))
    X = []
    for _ in range(n):
        if pool and draw(st.integers(0, 3)) == 0:
            X.append(list(pool[draw(st.integers(0, len(pool) - 1))]))  # repeated input
        else:
            X.append(draw(_pt(d)))
    pool.extend(X)
    val = st.floats(-3, 3)
    if kind == "list":
        y = [draw(val) for _ in range(n)]
        dims = draw(st.one_of(st.integers(0, m - 1), st.lists(st.integers(0, m - 1), min_size=n, max_size=n)))
        return ["add", X, y, dims]
    return ["add", X, [[draw(val) for _ in range(m)] for _ in range(n)]]


@st.composite
def st_history(draw, kind=None):
    kind = kind or draw(st.sampled_from(["ind", "cor", "list"]))
    d, m = draw(st.integers(1, 3)), draw(st.integers(2, 3))
    pool = []
    ops = []
    if kind == "cor" or draw(st.booleans()):
        for _ in range(draw(st.integers(1, 2))):
            ops.append(draw(st_add(kind, d, m, pool)))
    ops.append(["update"])
    ops.append(["predict", [draw(_pt(d)) for _ in range(draw(st.sampled_from([1, 1, 2, 4])))]])
    for _ in range(draw(st.integers(1, 8))):
        k = draw(st.sampled_from(["add", "add", "update", "predict", "predict", "clear"]))
        if k == "add":
            ops.append(draw(st_add(kind, d, m, pool)))
        elif k == "clear":
            ops.append(["clear"])
            if kind == "cor":
                ops.append(draw(st_add(kind, d, m, pool)))
            if draw(st.booleans()):
                ops.append(["update"])
                ops.append(["predict", [draw(_pt(d)) for _ in range(draw(st.sampled_from([1, 2, 3])))]])
        elif k == "update":
            ops.append(["update"])
        else:
            pts = [draw(_pt(d)) for _ in range(draw(st.sampled_from([1, 1, 2, 3, 5])))]
            if pool and draw(st.booleans()):
                pts[0] = list(pool[draw(st.integers(0, len(pool) - 1))])  # predict at a training input
            ops.append(["predict", pts])
    return {"kind": kind, "d": d, "m": m, "noise": draw(st_noise(kind, m)), "hyp": draw(st_hyp(kind, d, m)), "ops": ops,
            "reuse_buffers": draw(st.booleans())}


@st.composite
def st_factory(draw):
    kind = draw(st.sampled_from(["ind", "cor", "list"]))
    d, m = draw(st.integers(1, 3)), draw(st.integers(2, 3))
    n = draw(st.integers(4, 10))
    X = hdata.grid_inputs(n, d).tolist()
    w = [[draw(st.floats(-2, 2)) for _ in range(d)] for _ in range(m)]
    Y = [[float(np.sin(3 * np.dot(w[j], x)) + 0.3 * j) for j in range(m)] for x in X]
    cnt = draw(st.sampled_from([0, 0, 1, 2, 3])) if kind != "cor" else draw(st.sampled_from([1, 1, 2, 3]))
    return {"kind": kind, "X": X, "Y": Y, "cnt": cnt, "noise": draw(st.sampled_from([0.01, 0.1])),
            "Xs": [draw(_pt(d)) for _ in range(draw(st.sampled_from([1, 2, 3])))], "seed": draw(st.integers(0, 2**31 - 1))}


COMPONENTS = [
    Component("history_independent", check_history, strategy=lambda: st_history("ind"), quick=120, thorough=3000,
              rule="IndependentExactGPyTorchModel, d=1..3, m=2..3, scalar/matrix noise"),
    Component("history_correlated", check_history, strategy=lambda: st_history("cor"), quick=120, thorough=3000,
              rule="CorrelatedExactGPyTorchModel (>=1 sample at every update)"),
    Component("history_modellist", check_history, strategy=lambda: st_history("list"), quick=120, thorough=3000,
              rule="GPyTorchModelListExactModel with decoupled per-objective observations (int / per-sample index lists)"),
    Component("factory_helpers", check_factory, strategy=st_factory, quick=48, thorough=600,
              rule="get_gpytorch_model(list)_w_known_hyperparams with real training on 4..10 points, 0..3 initial samples"),
]
