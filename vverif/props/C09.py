"""C09 - region 'is dominated' decides  forall z in R1, z' in R2 : z' + slack dominates z."""
from __future__ import annotations

from fractions import Fraction

import numpy as np
from hypothesis import strategies as st

from vverif import gen
from vverif import gen_regions as gr
from vverif.core import Component, Result
from vverif.oracles import geom

RULE = ("case = (cone, region pair, slack), second region placed by the generator so that the closed-form tightest facet margin is "
        "+-{1,.3,1e-1..1e-5} x scale; oracle = support functions (box: sum_k min(w_k lo_k, w_k hi_k); ellipsoid: w.(c2-c1) - "
        "a2 sqrt(w S2 w) - a1 sqrt(w S1 w) + s_n); exact rationals and no band for dyadic rectangles. non-trivial = |margin| <= 10% "
        "of scale, or K>m, or anisotropy>10, or vector slack")
ASSUMPTIONS = ["verdict demanded only when |margin| > tau (rectangles 1e-11*scale; ellipsoids 2e-7 + 2e-6*scale, solver accuracy)",
               "slacks are non-negative (the algorithms pass 0, eps, eps*u*, eps*alpha)"]


def tau_ell(scale):
    return 2e-7 + 2e-6 * scale


def _slack_arr(s):
    return s if not isinstance(s, list) else np.array(s, float)


def check_rect(case):
    from vopy.confidence_region import confidence_region_is_dominated

    spec = case["cone"]
    order = gen.make_order(spec)
    W = np.asarray(order.ordering_cone.W, float)
    r1, r2 = case["r1"], case["r2"]
    s = case["slack"]
    m = W.shape[1]
    svec = np.broadcast_to(np.asarray(s, float), (m,)) if not isinstance(s, list) else np.array(s, float)
    labels = list(gen.cone_labels(spec)) + ["slack:" + ("vector" if isinstance(s, list) else "zero" if s == 0 else "scalar")]
    R1, R2, r1, r2 = gr.region_pair(case, "rect", lambda a, b: confidence_region_is_dominated(order, a, b, _slack_arr(s)))
    if case.get("first"):
        labels.append("objects-updated-after-a-comparison")
        labels.append("refined-by:" + case["first"].get("mode", "update"))
    if case.get("same_object"):  # a region compared with itself, passed as one object
        R2 = R1
        labels.append("same-object-twice")
    got = bool(confidence_region_is_dominated(order, R1, R2, _slack_arr(s)))
    lo = np.array(r2["lo"]) - np.array(r1["hi"])
    hi = np.array(r2["hi"]) - np.array(r1["lo"])
    if case.get("exact"):
        Wf = geom.frac_matrix(W)
        F = Fraction
        mins = []
        for row in Wf:
            t = sum(min(w * F(float(a)), w * F(float(b))) for w, a, b in zip(row, lo, hi)) + sum(w * F(float(x)) for w, x in zip(row, svec))
            mins.append(t)
        exp = all(t >= 0 for t in mins)
        boundary = exp and any(t == 0 for t in mins)
        if boundary:
            labels.append("exact-boundary")
        if got != exp:
            return Result.violation(f"C09:rect-exact:{'false-negative' if exp else 'false-positive'}" + (":boundary" if boundary else ""),
                                    f"got {got} exact margins {[float(t) for t in mins]} W={W.tolist()} r1={r1} r2={r2} slack={s}", labels)
        return Result.ok(labels, boundary or not isinstance(s, (int, float)) or W.shape[0] > m)
    nrm = np.linalg.norm(W, axis=1)
    margins = (geom.box_min_facet(W, lo, hi) + W @ svec) / nrm
    margin = float(margins.min())
    scale = gr.region_scale(r1, r2, slack=svec)
    if abs(margin) <= 1e-11 * scale:
        return Result.indet(labels + ["band"])
    exp = margin > 0
    if got != exp:
        return Result.violation(f"C09:rect:{'false-negative' if exp else 'false-positive'}",
                                f"got {got} margin {margin:.3e} scale {scale:.3e} W={W.tolist()} r1={r1} r2={r2} slack={s}", labels)
    rel = abs(margin) / scale
    labels.append("margin<=1e-3" if rel <= 1e-3 else "margin<=1e-1" if rel <= 0.1 else "margin>1e-1")
    return Result.ok(labels, rel <= 0.1 or W.shape[0] > m or isinstance(s, list))


def check_ell(case):
    from vopy.confidence_region import confidence_region_is_dominated

    spec = case["cone"]
    order = gen.make_order(spec)
    W = np.asarray(order.ordering_cone.W, float)
    e1, e2 = case["r1"], case["r2"]
    s = case["slack"]
    K = W.shape[0]
    labels = list(gen.cone_labels(spec)) + ["slack:" + ("vector" if isinstance(s, list) else "zero" if s == 0 else "scalar")]
    E1, E2, e1, e2 = gr.region_pair(case, "ell", lambda a, b: confidence_region_is_dominated(order, a, b, _slack_arr(s)))
    if case.get("first"):
        labels.append("objects-updated-after-a-comparison")
        labels.append("refined-by:" + case["first"].get("mode", "update"))
    if case.get("same_object"):
        E2 = E1
        labels.append("same-object-twice")
    got = bool(confidence_region_is_dominated(order, E1, E2, _slack_arr(s)))
    mg = geom.ell_dominated_margins(W, np.array(e1["c"]), np.array(e1["S"]), e1["a"], np.array(e2["c"]), np.array(e2["S"]), e2["a"],
                                    np.array(s, float) if isinstance(s, list) else float(s))
    margin = float((mg / np.linalg.norm(W, axis=1)).min())
    scale = gr.region_scale(e1, e2, slack=s)
    if abs(margin) <= tau_ell(scale):
        return Result.indet(labels + ["band"])
    exp = margin > 0
    if got != exp:
        return Result.violation(f"C09:ell:{'false-negative' if exp else 'false-positive'}",
                                f"got {got} margin {margin:.3e} scale {scale:.3e} W={W.tolist()} e1={e1} e2={e2} slack={s}", labels)
    rel = abs(margin) / scale
    ev = [np.linalg.eigvalsh(np.array(e["S"])) for e in (e1, e2)]
    aniso = max(np.sqrt(v[-1] / v[0]) for v in ev)
    labels.append("margin<=1e-3" if rel <= 1e-3 else "margin<=1e-1" if rel <= 0.1 else "margin>1e-1")
    if aniso > 10:
        labels.append("anisotropy>10")
    return Result.ok(labels, rel <= 0.1 or K > W.shape[1] or aniso > 10 or isinstance(s, list))


# ------------------------------------------------------------------ strategies
@st.composite
def st_slack(draw, n, scale, allow_vec=True):
    kind = draw(st.sampled_from(["zero-int", "zero", "scalar", "vector", "vector"] if allow_vec else ["zero-int", "zero", "scalar"]))
    if kind == "zero-int":
        return 0
    if kind == "zero":
        return 0.0
    eps = scale * draw(gen.st_logfloat(1e-3, 1.0))
    if kind == "scalar":
        return eps
    return [eps * draw(st.floats(0.05, 1.0)) for _ in range(n)]


@st.composite
def st_rect_case(draw):
    spec = draw(gen.st_cone(max_extra=3))
    W = gen.cone_W(spec) if spec["kind"] in ("W", "diag") else np.asarray(gen.make_order(spec).ordering_cone.W)
    m = W.shape[1]
    scale = draw(gen.st_logfloat(1e-4, 1e2))
    r1 = draw(gr.st_rect(m, scale * draw(st.sampled_from([1.0, 1.0, 0.1, 0.01]))))
    r2 = draw(gr.st_rect(m, scale * draw(st.sampled_from([1.0, 1.0, 0.1, 0.01]))))
    if draw(st.integers(0, 9)) == 0:
        r2 = {"lo": list(r1["lo"]), "hi": list(r1["hi"])}  # identical shapes
    s = draw(st_slack(m, scale))
    svec = np.broadcast_to(np.asarray(s, float), (m,)) if not isinstance(s, list) else np.array(s, float)
    v = gr.interior_dir(W)
    nrm = np.linalg.norm(W, axis=1)
    l1, u1 = np.array(r1["lo"]), np.array(r1["hi"])
    l2, u2 = np.array(r2["lo"]), np.array(r2["hi"])

    def f(t):
        return float(((geom.box_min_facet(W, l2 + t * v - u1, u2 + t * v - l1) + W @ svec) / nrm).min())

    target = draw(st.sampled_from([1, -1])) * draw(st.sampled_from(gr.MARGIN_LEVELS)) * scale
    t = gr.solve_shift(f, target, -1e4 * scale, 1e4 * scale)
    r2 = {"lo": (l2 + t * v).tolist(), "hi": (u2 + t * v).tolist()}
    t = draw(gr.st_offset(m))
    return {"cone": spec, "r1": gr.shift_region(r1, t), "r2": gr.shift_region(r2, t), "slack": s}


@st.composite
def st_rect_exact(draw):
    spec = draw(st.one_of(gen.st_dyadic_cone(max_extra=2), st.sampled_from([{"kind": "comp", "m": 2}, {"kind": "comp", "m": 3}])))
    m = gen.spec_dim(spec)
    r1 = draw(gr.st_rect(m, dyadic=True))
    r2 = draw(gr.st_rect(m, dyadic=True))
    kind = draw(st.sampled_from(["zero", "scalar", "vector"]))
    s = 0 if kind == "zero" else draw(st.integers(0, 8)) / 8 if kind == "scalar" else [draw(st.integers(0, 8)) / 8 for _ in range(m)]
    if draw(st.booleans()):
        # aim at the boundary: move r2 by a lattice vector that zeroes the tightest facet when possible
        W = np.array(spec["W"]) if spec["kind"] == "W" else np.eye(m)
        svec = np.broadcast_to(np.asarray(s, float), (m,)) if not isinstance(s, list) else np.array(s, float)
        lo = np.array(r2["lo"]) - np.array(r1["hi"])
        hi = np.array(r2["hi"]) - np.array(r1["lo"])
        mg = geom.box_min_facet(W, lo, hi) + W @ svec
        try:
            d = np.linalg.solve(W[:m], -mg[:m])
            d = np.round(d * 64) / 64
            if np.all(np.abs(d) < 64):
                r2 = {"lo": (np.array(r2["lo"]) + d).tolist(), "hi": (np.array(r2["hi"]) + d).tolist()}
        except np.linalg.LinAlgError:
            pass
    t = draw(gr.st_offset(m, exact=True))
    return {"cone": spec, "r1": gr.shift_region(r1, t), "r2": gr.shift_region(r2, t), "slack": s, "exact": True}


@st.composite
def st_ell_case(draw, small=False):
    spec = draw(gen.st_cone(max_extra=3))
    W = gen.cone_W(spec) if spec["kind"] in ("W", "diag") else np.asarray(gen.make_order(spec).ordering_cone.W)
    K, m = W.shape
    if small:
        # small extents described by a large radius times a tiny, strongly correlated covariance (entries <= 1e-8):
        # absolute tolerances on covariance entries must not change the region
        scale = draw(gen.st_logfloat(3e-4, 1e-3))
        e1 = draw(gr.st_ell(m, scale, a_range=(10, 50), always_rotated=True))
        e2 = draw(gr.st_ell(m, scale, a_range=(10, 50), always_rotated=True))
    else:
        scale = draw(gen.st_logfloat(1e-4, 1e2))
        e1 = draw(gr.st_ell(m, scale * draw(st.sampled_from([1.0, 1.0, 0.1]))))
        e2 = draw(gr.st_ell(m, scale * draw(st.sampled_from([1.0, 1.0, 0.1]))))
    if draw(st.integers(0, 9)) == 0:
        e2 = {"c": list(e1["c"]), "S": e1["S"], "a": e1["a"]}
    s = draw(st_slack(K, scale))
    v = gr.interior_dir(W)
    nrm = np.linalg.norm(W, axis=1)
    c2 = np.array(e2["c"])
    sl = np.array(s, float) if isinstance(s, list) else float(s)

    def f(t):
        mg = geom.ell_dominated_margins(W, np.array(e1["c"]), np.array(e1["S"]), e1["a"], c2 + t * v, np.array(e2["S"]), e2["a"], sl)
        return float((mg / nrm).min())

    target = draw(st.sampled_from([1, -1])) * draw(st.sampled_from([0.1, 0.3, 1.0] if small else gr.MARGIN_LEVELS)) * scale
    t = gr.solve_shift(f, target, -1e4 * scale, 1e4 * scale)
    e2 = dict(e2, c=(c2 + t * v).tolist())
    t = [0.0] * m if small else draw(gr.st_offset(m))
    return {"cone": spec, "r1": gr.shift_region(e1, t), "r2": gr.shift_region(e2, t), "slack": s}


@st.composite
def st_self(draw, kind):
    """A region against itself (one object passed twice); the slack, relative to the region's size, decides the answer."""
    spec = draw(gen.st_cone(max_extra=3))
    W = gen.cone_W(spec) if spec["kind"] in ("W", "diag") else np.asarray(gen.make_order(spec).ordering_cone.W)
    K, m = W.shape
    scale = draw(gen.st_logfloat(1e-3, 1e2))
    r = draw(gr.st_rect(m, scale)) if kind == "rect" else draw(gr.st_ell(m, scale))
    s = draw(st_slack(m if kind == "rect" else K, scale * draw(st.sampled_from([0.03, 0.3, 1.0, 3.0]))))
    return {"cone": spec, "r1": r, "r2": r, "slack": s, "same_object": True}


@st.composite
def st_updated(draw, kind):
    small = kind == "ell" and draw(st.booleans())
    case = draw(st_rect_case()) if kind == "rect" else draw(st_ell_case(small=small))
    m = len(case["r1"]["lo"] if kind == "rect" else case["r1"]["c"])
    if kind == "ell":
        sc = case["r1"]["a"] * float(np.sqrt(np.max(np.diag(np.array(case["r1"]["S"])))))
    else:
        sc = max(1e-6, float(np.max(np.array(case["r1"]["hi"]) - np.array(case["r1"]["lo"]))))
    case["first"] = draw(gr.st_first_pair(kind, m, sc, small))
    return case


COMPONENTS = [
    Component("rect_margin_targeted", check_rect, strategy=st_rect_case, quick=2500, thorough=60000,
              rule="hyper-rectangles 1e-4..1e2, zero-width edges, all cone classes, scalar/vector slack"),
    Component("rect_exact_dyadic", check_rect, strategy=st_rect_exact, quick=2500, thorough=60000,
              rule="dyadic cones/rectangles/slacks, exact rational oracle, boundary counts as dominated"),
    Component("ell_margin_targeted", check_ell, strategy=st_ell_case, quick=1200, thorough=30000,
              rule="ellipsoids with extents 1e-4..1e2, condition <=1e3, radius 0.1..50, per-facet slack"),
    Component("ell_small_correlated", check_ell, strategy=lambda: st_ell_case(small=True), quick=300, thorough=8000,
              rule="extents 1e-5..1e-3 written as radius 10..50 x rotated covariance with entries <= 1e-8; margins 0.1..1 x extent"),
    Component("rect_against_itself", check_rect, strategy=lambda: st_self("rect"), quick=200, thorough=5000,
              rule="one region object passed as both arguments; slack 0 .. 3 x its size"),
    Component("ell_against_itself", check_ell, strategy=lambda: st_self("ell"), quick=150, thorough=4000,
              rule="as rect_against_itself for ellipsoids"),
    Component("rect_updated_objects", check_rect, strategy=lambda: st_updated("rect"), quick=400, thorough=10000,
              rule="region objects built for another pair (or, with intersect_iteratively=True, around the case's pair), compared once, then moved to the case's pair through update() / intersect()"),
    Component("ell_updated_objects", check_ell, strategy=lambda: st_updated("ell"), quick=300, thorough=8000,
              rule="as rect_updated_objects for ellipsoids; half of them small correlated (covariances differing by < 1e-8)"),
]
