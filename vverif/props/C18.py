"""C18 - adaptive discretisation tiles the domain; VOGP_AD declares only finest leaves."""
from __future__ import annotations

import itertools
from fractions import Fraction

import numpy as np
from hypothesis import strategies as st

from vverif import gen_runs
from vverif.core import Component, Result
from vverif.harness import algos as ha

RULE = ("(a) history = generated sequence of refine_design calls on AdaptivelyDiscretizedDesignSpace (d=1..3, max depth 2..5 or one branch down to depth 6..12, any leaf below the maximum "
        "depth in any order, regions updated in between) checked with exact dyadic arithmetic: 2^d children, half side, tile the parent, centres, depth+1 <= max, "
        "parent's region, earlier entries untouched; should_refine_design is False at the maximum depth. (b) VOGP_AD runs on user-defined continuous problems: "
        "after every step S and P are leaves with pairwise interior-disjoint cells, all leaves tile the unit cube, a refined node is replaced by its children in "
        "the same set, every member of P is at the maximum depth. non-trivial = history with >= 2 refinements incl. one at depth >= 2, or a run with >= 1 refinement")
ASSUMPTIONS = ["cells are dyadic so Fractions of the stored floats are exact", "VOGP_AD with generated (not trained) GP hyper-parameters"]


def F(x):
    return Fraction(float(x))


def cell_volume(cell):
    v = Fraction(1)
    for lo, hi in cell:
        v *= F(hi) - F(lo)
    return v


def interiors_overlap(c1, c2):
    return all(F(max(a[0], b[0])) < F(min(a[1], b[1])) for a, b in zip(c1, c2))


class HyperStub:
    """GP-like object for should_refine_design."""

    def __init__(self, m, ls, var, std):
        self.m, self.ls, self.var, self.std = m, ls, var, std

    def get_lengthscale_and_var(self):
        return np.array(self.ls, float), np.array(self.var, float)

    def get_kernel_type(self):
        return "RBF"

    def predict(self, X):
        n = len(X)
        return np.zeros((n, self.m)), np.tile(np.diag(np.array(self.std, float) ** 2), (n, 1, 1))


def check_refine_children(ds, parent, children, n_before, d, labels):
    if list(children) != list(range(n_before, n_before + 2**d)):
        return Result.violation("C18:refine:child-indices", f"returned {children}, expected {list(range(n_before, n_before + 2 ** d))}", labels)
    if not (len(ds.points) == len(ds.cells) == len(ds.point_depths) == len(ds.confidence_regions) == n_before + 2**d == ds.cardinality):
        return Result.violation("C18:refine:array-lengths", f"points {len(ds.points)} cells {len(ds.cells)} depths {len(ds.point_depths)} regions "
                                f"{len(ds.confidence_regions)} cardinality {ds.cardinality}", labels)
    pc = ds.cells[parent]
    vol = Fraction(0)
    for c in children:
        cc = ds.cells[c]
        for k in range(d):
            if F(cc[k][1]) - F(cc[k][0]) != (F(pc[k][1]) - F(pc[k][0])) / 2:
                return Result.violation("C18:refine:child-side-not-half", f"parent cell {pc} child cell {cc}", labels)
            if F(cc[k][0]) < F(pc[k][0]) or F(cc[k][1]) > F(pc[k][1]):
                return Result.violation("C18:refine:child-outside-parent", f"parent cell {pc} child cell {cc}", labels)
            if F(ds.points[c][k]) != (F(cc[k][0]) + F(cc[k][1])) / 2:
                return Result.violation("C18:refine:child-point-not-centre", f"cell {cc} point {ds.points[c].tolist()}", labels)
        vol += cell_volume(cc)
        if ds.point_depths[c] != ds.point_depths[parent] + 1:
            return Result.violation("C18:refine:depth-not-plus-one", f"parent depth {ds.point_depths[parent]} child depth {ds.point_depths[c]}", labels)
        if ds.point_depths[c] > ds.max_depth:
            return Result.violation("C18:refine:beyond-max-depth", f"child depth {ds.point_depths[c]} max {ds.max_depth}", labels)
        rp, rc = ds.confidence_regions[parent], ds.confidence_regions[c]
        if not (np.array_equal(rp.lower, rc.lower) and np.array_equal(rp.upper, rc.upper)):
            return Result.violation("C18:refine:child-region-differs-from-parent", f"parent [{rp.lower},{rp.upper}] child [{rc.lower},{rc.upper}]", labels)
    if vol != cell_volume(pc):
        return Result.violation("C18:refine:children-volume", f"sum {vol} parent {cell_volume(pc)}", labels)
    for a, b in itertools.combinations(children, 2):
        if interiors_overlap(ds.cells[a], ds.cells[b]):
            return Result.violation("C18:refine:children-overlap", f"{ds.cells[a]} {ds.cells[b]}", labels)
    return None


def check_space(case):
    from vopy.design_space import AdaptivelyDiscretizedDesignSpace

    d, m, md = case["d"], case["m"], case["max_depth"]
    ds = AdaptivelyDiscretizedDesignSpace(d, m, delta=0.1, max_depth=md)
    labels = [f"d={d}", f"max_depth={md}" if md <= 5 else "max_depth>=6"]
    if ds.cells[0] != [[0, 1]] * d or ds.point_depths[0] != 1 or not np.array_equal(ds.points[0], [0.5] * d):
        return Result.violation("C18:init", f"{ds.cells} {ds.point_depths} {ds.points}", labels)
    stub = HyperStub(m, case["ls"][:m] if len(case["ls"]) >= m else case["ls"] * m, [1.0] * m, case["std"][:m] if len(case["std"]) >= m else case["std"] * m)
    refined = set()
    last_children = []
    n_ref = 0
    deep = False
    for op in case["ops"]:
        leaves = [i for i in range(len(ds.points)) if i not in refined]
        if op[0] == "update":
            idx = [leaves[k % len(leaves)] for k in op[1]]
            idx = list(dict.fromkeys(idx))
            ds.update(stub, np.array(float(op[2])), idx)
            continue
        if op[0] == "should":
            i = leaves[op[1] % len(leaves)]
            r = ds.should_refine_design(stub, i, np.array(float(op[2])))
            if ds.point_depths[i] >= md and bool(r):
                return Result.violation("C18:should-refine-at-max-depth", f"depth {ds.point_depths[i]} max {md}", labels)
            continue
        cand = [i for i in leaves if ds.point_depths[i] < md]
        if op[0] == "refine_last" and last_children:
            cand = [i for i in last_children if ds.point_depths[i] < md] or cand  # go deeper along one branch
        if not cand:
            continue
        parent = cand[op[1] % len(cand)]
        n_before = len(ds.points)
        snap = (ds.points.copy(), [list(map(list, c)) for c in ds.cells], list(ds.point_depths),
                [(r.lower.copy(), r.upper.copy()) for r in ds.confidence_regions])
        # refine_design is documented as (and is) a thin wrapper of the public generate_child_designs: both entry points
        # must create and report the same children
        if len(op) > 2 and op[2]:
            children = ds.generate_child_designs(parent)
            labels.append("via-generate_child_designs")
        else:
            children = ds.refine_design(parent)
        r = check_refine_children(ds, parent, children, n_before, d, labels)
        if r is not None:
            return r
        if not np.array_equal(ds.points[:n_before], snap[0]) or [list(map(list, c)) for c in ds.cells[:n_before]] != snap[1] \
                or list(ds.point_depths[:n_before]) != snap[2] or any(
                    not (np.array_equal(a.lower, b[0]) and np.array_equal(a.upper, b[1])) for a, b in zip(ds.confidence_regions[:n_before], snap[3])):
            return Result.violation("C18:refine:earlier-entries-changed", "", labels)
        refined.add(parent)
        last_children = list(range(n_before, len(ds.points)))
        n_ref += 1
        deep |= ds.point_depths[parent] >= 2
    leaves = [i for i in range(len(ds.points)) if i not in refined]
    if sum(cell_volume(ds.cells[i]) for i in leaves) != 1:
        return Result.violation("C18:leaves-do-not-tile", f"total volume {float(sum(cell_volume(ds.cells[i]) for i in leaves))}", labels)
    for a, b in itertools.combinations(leaves, 2):
        if interiors_overlap(ds.cells[a], ds.cells[b]):
            return Result.violation("C18:leaves-overlap", f"{ds.cells[a]} {ds.cells[b]}", labels)
    labels.append(f"refinements={'0' if n_ref == 0 else '1' if n_ref == 1 else '>=2'}")
    return Result.ok(sorted(set(labels)), n_ref >= 2 and deep)


def check_run(spec):
    labels = ["VOGP_AD", f"d={spec['problem']['d']}", f"max_depth={spec['problem']['depth_max']}"]
    alg, ctx = ha.build(spec)
    ds = alg.design_space
    d = spec["problem"]["d"]
    md = spec["problem"]["depth_max"]
    steps = 0
    parents_all = set()
    while steps < 80:
        S0, P0 = set(alg.S), set(alg.P)
        nref = len(ctx.refines)
        n_before = len(ds.points)
        flag = alg.run_one_step()
        steps += 1
        S1, P1 = set(alg.S), set(alg.P)
        for parent, children, _ in ctx.refines[nref:]:
            r = check_refine_children(ds, parent, children, n_before, d, labels)
            if r is not None:
                return r
            parents_all.add(parent)
            if ds.point_depths[parent] >= md:
                return Result.violation("C18:run:refined-at-max-depth", f"node {parent} depth {ds.point_depths[parent]}", labels)
            # replaced by its children in the same set
            in_S, in_P = set(children) <= S1, set(children) <= P1
            was_S = parent in S0 or parent in (S0 | P0) and parent not in P0
            # the parent was active when chosen: it sat in S or P after this round's discarding/covering
            if parent in S1 or parent in P1:
                return Result.violation("C18:run:refined-parent-kept", f"node {parent}", labels)
            if not (in_S or in_P):
                return Result.violation("C18:run:children-not-in-one-set", f"children {children} S={sorted(S1)} P={sorted(P1)}", labels)
            if parent in P0 and not in_P:
                return Result.violation("C18:run:children-of-P-node-not-in-P", f"parent {parent} children {children}", labels)
            if parent in S0 and parent not in P0 and in_P and not in_S:
                # a candidate may enter P in this very round before being refined only if it is at max depth - impossible for a refinable node
                return Result.violation("C18:run:children-of-S-node-in-P", f"parent {parent} children {children}", labels)
        active = S1 | P1
        if active & parents_all:
            return Result.violation("C18:run:active-node-is-not-a-leaf", f"{sorted(active & parents_all)}", labels)
        for a, b in itertools.combinations(sorted(active), 2):
            if interiors_overlap(ds.cells[a], ds.cells[b]):
                return Result.violation("C18:run:active-cells-overlap", f"{a}:{ds.cells[a]} {b}:{ds.cells[b]}", labels)
        leaves = [i for i in range(len(ds.points)) if i not in parents_all]
        if sum(cell_volume(ds.cells[i]) for i in leaves) != 1:
            return Result.violation("C18:run:leaves-do-not-tile", "", labels)
        for a, b in itertools.combinations(leaves, 2):
            if interiors_overlap(ds.cells[a], ds.cells[b]):
                return Result.violation("C18:run:leaves-overlap", f"{ds.cells[a]} {ds.cells[b]}", labels)
        bad = [p for p in P1 if ds.point_depths[p] != md]
        if bad:
            return Result.violation("C18:run:P-member-not-at-max-depth", f"nodes {bad} depths {[ds.point_depths[p] for p in bad]} max {md}", labels)
        if flag:
            break
    nref = len(ctx.refines)
    labels.append(f"refinements={'0' if nref == 0 else '1-3' if nref <= 3 else '>3'}")
    if P1:
        labels.append("nonempty-P")
    return Result.ok(labels, nref >= 1)


def check_gate(case):
    """Covering gate of VOGP_AD on an injected state: candidates of mixed depths with pairwise incomparable, mutually
    un-coverable regions.  Nothing may enter P while any candidate is below the maximum depth."""
    from vopy.confidence_region import RectangularConfidenceRegion

    spec = case["spec"]
    alg, ctx = ha.build(spec)
    ds = alg.design_space
    md = spec["problem"]["depth_max"]
    m = spec["problem"]["m"]
    labels = ["gate", f"max_depth={md}"]
    refined = set()
    for k in case["refine"]:
        cand = [i for i in range(len(ds.points)) if i not in refined and ds.point_depths[i] < md]
        if not cand:
            break
        parent = cand[k % len(cand)]
        ds.refine_design(parent)
        refined.add(parent)
    leaves = [i for i in range(len(ds.points)) if i not in refined]
    order = [leaves[k % len(leaves)] for k in case["pick"]]
    S = list(dict.fromkeys(order))
    # regions spread along an anti-diagonal: far apart and incomparable for every cone around the diagonal, tiny boxes
    W = np.asarray(ctx.order.ordering_cone.W, float)
    perp = np.zeros(m)
    perp[0], perp[1] = 1.0, -1.0
    for r, i in enumerate(S):
        c = perp * 10.0 * (r + 1) * spec["eps"]
        ds.confidence_regions[i] = RectangularConfidenceRegion(m, c - 1e-3, c + 1e-3)
    alg.S = set(S)
    alg.P = set()
    shallow = [i for i in S if ds.point_depths[i] != md]
    # the phase is called in consecutive rounds on the same state: a gate that closes correctly once must not be left
    # open for the next round by what the first call did
    for call in (1, 2, 3):
        alg.epsiloncovering()
        P1, S1 = set(alg.P), set(alg.S)
        bad = [p for p in P1 if ds.point_depths[p] != md]
        tag = "" if call == 1 else ":repeated-call"
        if bad:
            return Result.violation("C18:gate:P-member-not-at-max-depth" + tag, f"S={S} depths={[ds.point_depths[i] for i in S]} max={md}: declared Pareto "
                                    f"{sorted(P1)} (call {call})", labels)
        if shallow and (P1 or S1 != set(S)):
            return Result.violation("C18:gate:covering-ran-with-shallow-candidate" + tag, f"S={S} depths={[ds.point_depths[i] for i in S]} -> S={sorted(S1)} "
                                    f"P={sorted(P1)} (call {call})", labels)
        if not shallow:
            break
    if not shallow:
        labels.append("all-at-max-depth")
        if len(S) >= 2 and not P1:
            # un-coverable candidates at max depth must be declared (C03 holds the exact rule; here only non-vacuity)
            return Result.violation("C18:gate:covering-never-enabled", f"S={S} all at depth {md} but P stayed empty", labels)
    else:
        labels.append("mixed-depths")
    return Result.ok(labels, bool(shallow) and any(ds.point_depths[i] == md for i in S))


@st.composite
def st_gate(draw):
    from vverif.props.C06 import st_spec_ad

    spec = draw(st_spec_ad().filter(lambda s: s["problem"]["d"] >= s["problem"]["m"]))
    spec["problem"]["depth_max"] = draw(st.sampled_from([3, 3, 4, 5])) if spec["problem"]["d"] < 3 else 3
    spec["cone"] = draw(st.sampled_from([{"kind": "comp", "m": spec["problem"]["m"]}, {"kind": "theta", "deg": 60.0}, {"kind": "theta", "deg": 120.0}])
                        if spec["problem"]["m"] == 2 else st.just({"kind": "comp", "m": 3}))
    return {"spec": spec, "refine": draw(st.lists(st.integers(0, 40), min_size=1, max_size=5)),
            "pick": draw(st.lists(st.integers(0, 60), min_size=1, max_size=6))}


@st.composite
def st_space(draw):
    d = draw(st.integers(1, 3))
    chain = draw(st.integers(0, 3)) == 0  # one branch refined down to depth 6..12 (cells of side 2^-11 are still exact)
    md = draw(st.integers(6, 12)) if chain else draw(st.integers(2, 5 if d < 3 else 3))
    ops = []
    for _ in range(draw(st.integers(5, 12)) if chain else draw(st.integers(1, 10 if d < 3 else 5))):
        k = draw(st.sampled_from(["refine_last"] * 6 + ["update", "should"] if chain else ["refine", "refine", "refine", "update", "should"]))
        if k in ("refine", "refine_last"):
            ops.append([k, draw(st.integers(0, 60)), draw(st.sampled_from([False, False, True]))])
        elif k == "update":
            ops.append(["update", draw(st.lists(st.integers(0, 60), min_size=1, max_size=4)), draw(st.sampled_from([0.5, 1.0, 3.0]))])
        else:
            ops.append(["should", draw(st.integers(0, 60)), draw(st.sampled_from([0.01, 1.0, 100.0]))])
    return {"d": d, "m": draw(st.integers(2, 3)), "max_depth": md, "ops": ops, "ls": [draw(st.sampled_from([0.1, 0.5, 2.0])) for _ in range(3)],
            "std": [draw(st.sampled_from([0.001, 0.1, 1.0])) for _ in range(3)]}


def _ad():
    from vverif.props.C06 import st_spec_ad

    return st_spec_ad().filter(lambda s: s["problem"]["d"] >= s["problem"]["m"])


COMPONENTS = [
    Component("refine_histories", check_space, strategy=st_space, quick=1500, thorough=40000, rule="1..12 ops: refine any leaf below max depth (a quarter of the cases: one branch down to depth 6..12) / update / should_refine"),
    Component("covering_gate_injected", check_gate, strategy=st_gate, quick=200, thorough=5000,
              rule="VOGP_AD.epsiloncovering(), called up to three times in a row, on an injected candidate set of mixed depths (any index order) with un-coverable regions"),
    Component("vogp_ad_runs", check_run, strategy=_ad, quick=48, thorough=1500, rule="VOGP_AD runs (<= 80 steps), d=1..3, depth 1..3, cones, eps, contractions"),
]
