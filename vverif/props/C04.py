"""C04 - at contraction 1 the confidence schedules are valid with probability >= 1 - delta."""
from __future__ import annotations

import math
from types import SimpleNamespace

import numpy as np
from hypothesis import strategies as st
from scipy import stats as sstats

from vverif import gen
from vverif.core import Component, Result
from vverif.props.C14 import StubModel

RULE = ("configuration = (algorithm/confidence type, delta, K designs, m objectives, noise variance or posterior covariance); the real "
        "compute_radius/alpha/beta is evaluated for round t (contraction 1), pushed through the real region builder (design_space.update "
        "with a stub model of known mean/covariance) and the displayed geometry read back; the per-(design, round) miss probability is exact "
        "(Gaussian / chi-square tails), summed exactly for t <= 4096 and bounded by dyadic condensation up to t = 2^60. Requirement: K x sum <= delta. "
        "non-trivial = corner configuration (delta > 0.9 or < 1e-3, K = 1 or >= 1e4, m >= 5) or total >= delta/100")
ASSUMPTIONS = ["horizon 2^60 rounds stands in for 'all rounds' (condensation bound is rigorous for non-increasing per-round terms; checked on the grid)",
               "bandit estimators: mean of t iid Gaussian samples; Auer: variance 1 (its stated worst case); GP: the posterior itself is the law"]

T_EXACT = 4096
J_MAX = 60
ALGOS = ["PaVeBa", "PaVeBaGP-IH", "PaVeBaGP-DE", "PaVeBaPartialGP-rect", "PaVeBaPartialGP-ell", "VOGP", "EpsilonPAL", "Auer"]


def _scale_fn(algo, delta, K, m, noise_var, batch=1):
    """Returns f(t) -> scale handed to design_space.update by the algorithm in its t-th confidence round (t = 1, 2, ...)."""
    import types

    ds = types.SimpleNamespace(cardinality=K)

    def SimpleNamespace(**kw):  # noqa: N802 - every namespace also carries the configured batch size
        return types.SimpleNamespace(batch_size=batch, **kw)

    if algo == "PaVeBa":
        from vopy.algorithms.paveba import PaVeBa

        return lambda t: PaVeBa.compute_radius(SimpleNamespace(noise_var=noise_var, round=t, m=m, design_space=ds, delta=delta, conf_contraction=1))
    if algo.startswith("PaVeBaGP"):
        from vopy.algorithms.paveba_gp import PaVeBaGP

        return lambda t: PaVeBaGP.compute_alpha(SimpleNamespace(round=t, m=m, design_space=ds, delta=delta, conf_contraction=1))
    if algo.startswith("PaVeBaPartialGP"):
        from vopy.algorithms.paveba_partial_gp import PaVeBaPartialGP

        return lambda t: PaVeBaPartialGP.compute_alpha(SimpleNamespace(round=t, m=m, design_space=ds, delta=delta, conf_contraction=1))
    if algo == "VOGP":  # its round counter starts at 0
        from vopy.algorithms.vogp import VOGP

        return lambda t: VOGP.compute_beta(SimpleNamespace(round=t - 1, m=m, design_space=ds, delta=delta, conf_contraction=1))
    if algo == "EpsilonPAL":
        from vopy.algorithms.epal import EpsilonPAL

        return lambda t: EpsilonPAL.compute_beta(SimpleNamespace(round=t - 1, m=m, design_space=ds, delta=delta, conf_contraction=1))
    if algo == "Auer":
        from vopy.algorithms.auer import Auer

        return lambda t: Auer.compute_beta(SimpleNamespace(use_empirical_beta=False, round=t, m=m, design_space=ds, delta=delta,
                                                           conf_contraction=1, S={0}))
    raise ValueError(algo)


def _instance_scale_fn(algo, delta, K, m, noise_var, batch=1):
    """Same schedule read from a REAL algorithm instance (public constructor, synthetic dataset of K designs)."""
    from vverif.harness import algos as ha
    from vverif.harness import data as hdata

    name = {"PaVeBaGP-IH": "PaVeBaGP", "PaVeBaGP-DE": "PaVeBaGP", "PaVeBaPartialGP-rect": "PaVeBaPartialGP",
            "PaVeBaPartialGP-ell": "PaVeBaPartialGP"}.get(algo, algo)
    spec = {"algo": name, "cone": {"kind": "comp", "m": m}, "eps": 0.1, "delta": delta, "noise_var": noise_var, "contraction": 1,
            "X": hdata.grid_inputs(K, 1).tolist(), "Y": [[0.0] * m for _ in range(K)], "seed": 0, "source": "stub",
            "stub": {"A": [[0.0] * (m * m)], "diag": [[1.0] * m], "cov_scale": 1.0, "rho": 0.9, "vtab": [[0.0] * m]}}
    if name in ("PaVeBaGP", "PaVeBaPartialGP", "VOGP", "EpsilonPAL"):
        spec["batch"] = batch
    if algo == "PaVeBaGP-DE":
        spec["conf"] = "DE"
    if algo == "PaVeBaPartialGP-ell":
        spec["conf"] = "hyperellipsoid"
    alg, _ = ha.build(spec)
    meth = {"PaVeBa": "compute_radius", "PaVeBaGP": "compute_alpha", "PaVeBaPartialGP": "compute_alpha"}.get(name, "compute_beta")

    def f(t):
        alg.round = t - 1 if name in ("VOGP", "EpsilonPAL") else t
        if name == "Auer":
            alg.S = {0}
        return getattr(alg, meth)()

    return f


def check_crosscheck(case):
    """The namespace route used for large K agrees with a real instance (small K), for several rounds."""
    algo, delta, K, m = case["algo"], case["delta"], min(case["K"], 40), case["m"]
    noise_var = case["noise_var"] if algo != "Auer" else min(1.0, case["noise_var"])
    batch = case.get("batch", 1)
    f1 = _scale_fn(algo, delta, K, m, noise_var, batch)
    f2 = _instance_scale_fn(algo, delta, K, m, noise_var, batch)
    for t in (1, 2, 3, 7, 50, 1000, 2**20):
        a, b = np.asarray(f1(t), float), np.asarray(f2(t), float)
        if a.shape != b.shape or not np.allclose(a, b, rtol=1e-12, atol=0):
            from vverif.core import HarnessError

            raise HarnessError(f"schedule routes disagree for {algo} at t={t}: namespace {a} vs instance {b}")
    return Result.ok(["algo=" + algo, "crosscheck"], True)


def check(case):
    from vopy.design_space import FixedPointsDesignSpace

    algo, delta, K, m = case["algo"], case["delta"], case["K"], case["m"]
    bandit = algo in ("PaVeBa", "Auer")
    ell = algo in ("PaVeBa", "PaVeBaGP-DE", "PaVeBaPartialGP-ell")
    noise_var = case["noise_var"] if algo != "Auer" else min(1.0, case["noise_var"])
    labels = ["algo=" + algo]
    if bandit:
        Sigma = np.eye(m)  # what the untracked empirical model reports
    else:
        A = np.array(case["A"], float)[: m * m].reshape(m, m)
        Sigma = A @ A.T + np.diag(np.array(case["diag"], float)[:m])
    # the regions of `order` (a permutation of a few designs with distinct predictions) are rebuilt by one update call;
    # each design's region must be the one of its own prediction, whatever the order of the index list
    order = [int(i) for i in case.get("order", [0])]
    n = len(order)
    pts = np.array([[0.5 + 0.1 * i] for i in range(n)])
    ds = FixedPointsDesignSpace(pts, m, confidence_type="hyperellipsoid" if ell else "hyperrectangle")
    mult = [1.0] * n if bandit else [float((1 + i) ** 2) for i in range(n)]
    sd0 = float(np.sqrt(np.max(np.diag(Sigma))))
    means = np.array([[7.0 * sd0 * i * (1 if j % 2 == 0 else -1) for j in range(m)] for i in range(n)])
    stub = StubModel(pts, means, np.array([c * Sigma for c in mult]))
    if n > 1:
        labels.append("several-designs-sorted-indices" if order == sorted(order) else "several-designs-unsorted-indices")
    batch = case.get("batch", 1) if algo not in ("PaVeBa", "Auer") else 1
    if batch > 1:
        labels.append("batch>1")
    f = _scale_fn(algo, delta, K, m, noise_var, batch)
    try:
        f(1)
    except AttributeError:
        # the schedule now reads an attribute the namespace does not carry: fall back to a real instance (K capped)
        K = min(K, 200)
        f = _instance_scale_fn(algo, delta, K, m, noise_var, batch)
        labels.append("instance-route")

    def p_miss(t):
        scale = f(t)
        sc = np.asarray(scale, float)
        if not np.all(np.isfinite(sc)) or np.any(sc < 0):
            raise FloatingPointError(f"scale {scale} at t={t}")
        sarr = scale if isinstance(scale, np.ndarray) or hasattr(scale, "ndim") else np.array(scale)
        if getattr(sarr, "ndim", 0) == 2 and len(sarr) == 1 and n > 1:  # one row per updated design
            sarr = np.repeat(np.asarray(sarr), n, axis=0)
        ds.update(stub, sarr, list(order))
        worst = 0.0
        for i in order:
            reg = ds.confidence_regions[i]
            Si = mult[i] * Sigma
            if ell:
                S, a = np.asarray(reg.sigma, float), float(np.asarray(reg.alpha))
                # estimator law: N(truth, kappa * S) with kappa = sigma^2/t for the bandit mean (S = I), 1 for a GP posterior (S = Sigma)
                kappa = (1.0 if algo == "Auer" else noise_var) / t if bandit else 1.0
                if not np.allclose(S, Si):
                    raise FloatingPointError(f"region covariance of design {i} differs from the model's (index list {order})")
                d = np.asarray(reg.center, float) - means[i]
                if np.any(d != 0):  # region centred elsewhere than at the design's own prediction
                    nc = float(d @ np.linalg.solve(Si, d)) / kappa
                    worst = max(worst, float(sstats.ncx2.sf(a * a / kappa, m, nc)))
                else:
                    worst = max(worst, float(sstats.chi2.sf(a * a / kappa, m)))
                continue
            lo, up = np.asarray(reg.lower, float), np.asarray(reg.upper, float)
            h = (up - lo) / 2
            d = (up + lo) / 2 - means[i]
            d = np.where(np.abs(d) <= 1e-12 * (np.abs(means[i]) + h), 0.0, d)  # centre recovered from the corners: round-off
            if bandit:
                sd = np.full(m, math.sqrt((1.0 if algo == "Auer" else noise_var) / t))
            else:
                sd = np.sqrt(np.diag(Si))
            worst = max(worst, float(np.sum(sstats.norm.sf((h + d) / sd) + sstats.norm.sf((h - d) / sd))))
        return worst

    try:
        total = 0.0
        prev = None
        mono = True
        first = None
        for t in range(1, T_EXACT + 1):
            p = p_miss(t)
            if first is None:
                first = p
            if prev is not None and p > prev * (1 + 1e-9) + 1e-300:
                mono = False
            prev = p
            total += p
        tail = 0.0
        j0 = int(math.log2(T_EXACT))  # T_EXACT = 2^j0: remaining rounds t >= 2^j0 + 1; bound blocks [2^j, 2^(j+1))
        pj_prev = prev
        for j in range(j0, J_MAX):
            pj = p_miss(2**j)
            if pj > pj_prev * (1 + 1e-9) + 1e-300:
                mono = False
            pj_prev = pj
            tail += (2**j) * pj
    except FloatingPointError as e:
        return Result.violation(f"C04:{algo}:invalid-scale", str(e), labels)
    union = K * (total + tail)
    ratio = union / delta
    corner = delta > 0.9 or delta < 1e-3 or K == 1 or K >= 1e4 or m >= 5
    if corner:
        labels.append("corner")
    labels.append("ratio>=0.01" if ratio >= 0.01 else "ratio<0.01")
    if not mono:
        # the condensation bound on the tail needs non-increasing terms; the exactly summed first T_EXACT rounds do not:
        # if they alone exceed delta the property is violated whatever the tail is
        if K * total > delta * (1 + 1e-9):
            return Result.violation(f"C04:{algo}:union-bound-exceeds-delta",
                                    f"miss probabilities summed exactly over the first {T_EXACT} rounds = {K * total:.6g} > delta = {delta} (K={K}, m={m}, "
                                    f"noise_var={noise_var}, first-round term {first:.3g}; per-round terms are not monotone)", labels + ["non-monotone-schedule"])
        return Result.indet(labels + ["non-monotone-schedule"])
    if union > delta * (1 + 1e-9):
        return Result.violation(f"C04:{algo}:union-bound-exceeds-delta",
                                f"sum over designs/objectives/rounds of miss probabilities = {union:.6g} > delta = {delta} (K={K}, m={m}, "
                                f"noise_var={noise_var}, first-round term {first:.3g}, tail bound {K * tail:.3g})", labels)
    return Result.ok(labels, corner or ratio >= 0.01)


@st.composite
def st_case(draw, algo=None):
    algo = algo or draw(st.sampled_from(ALGOS))
    delta = draw(st.one_of(st.sampled_from([0.999999, 0.999, 0.99, 0.9, 0.5, 0.1, 0.05, 0.01, 1e-3, 1e-6]),
                           st.floats(0.0, 14.0).map(lambda x: float(f"{math.exp(-x):.6g}")),
                           st.floats(0.0, 14.0).map(lambda x: float(f"{1 - math.exp(-x) * 0.999:.9g}"))))
    delta = min(max(delta, 1e-7), 0.9999999)
    K = draw(st.one_of(st.sampled_from([1, 1, 2, 3, 10, 100, 10**4, 10**6]), st.floats(0, 13.8).map(lambda x: int(math.exp(x)))))
    m = draw(st.integers(2, 6))
    return {"algo": algo, "delta": delta, "K": max(1, K), "m": m, "noise_var": draw(gen.st_logfloat(1e-3, 1e2)),
            "batch": draw(st.sampled_from([1, 1, 2, 8, 32, 64])),
            "order": draw(st.one_of(st.just([0]), st.just([0]), st.just([0]), st.integers(2, 3).flatmap(lambda n: st.permutations(list(range(n)))))),
            "A": [draw(st.floats(-1, 1)) for _ in range(36)], "diag": [draw(gen.st_logfloat(1e-4, 1.0)) for _ in range(6)]}


COMPONENTS = [
    Component("routes_crosscheck", check_crosscheck, strategy=st_case, quick=48, thorough=600,
              rule="schedule via unbound method on a namespace == schedule of a real instance (K <= 40), 7 rounds"),
    Component("union_bound", check, strategy=st_case, quick=800, thorough=40000,
              rule="8 algorithm/confidence-type variants; delta in (1e-7, 1-1e-7) dense towards both ends; K = 1..1e6; m = 2..6"),
]
