"""C16 - the empirical model reports per-design running statistics of all samples."""
from __future__ import annotations

import math

import numpy as np
from hypothesis import strategies as st

from vverif.core import Component, Result

RULE = ("history = generated list of add_sample(list|set|repeated indices)/update/clear/predict/out-of-range-add ops run "
        "against EmpiricalMeanVarModel and an independent per-design accumulator (model-based testing, op list shrinks "
        "as one value); non-trivial = history with a predict after >=2 separate adds to one design, or a set whose "
        "iteration order is not sorted, or a repeated index inside one add, or a rejected add followed by predict")
ASSUMPTIONS = ["predictions are compared when the model was updated after the last add/clear (the algorithms' protocol)",
               "float64 mean compared at 1e-9 x data scale; variance at 1e-9 relative to the variance (+1e-24 x scale^2)"]


def _predict_rows(in_dim, rows):
    X = np.zeros((len(rows), in_dim + 1))
    X[:, -1] = rows
    # unused feature columns carry junk on purpose: only the last column may matter
    X[:, :-1] = np.arange(len(rows))[:, None] * 0.37 + 1.5
    return X


def check(case):
    from vopy.models import EmpiricalMeanVarModel

    in_dim, m, K = case["in_dim"], case["m"], case["K"]
    nv = case["noise_var"]
    tm, tv = case["track_means"], case["track_vars"]
    model = EmpiricalMeanVarModel(in_dim, m, nv, K, track_means=tm, track_variances=tv)
    acc = [[] for _ in range(K)]  # independent accumulator
    snap = None  # accumulator state at last update
    dirty = True
    labels = [f"tm={int(tm)}", f"tv={int(tv)}"] + (["caller-reuses-buffers"] if case.get("reuse_buffers") else [])
    adds_per_design = [0] * K
    nt = False
    rejected = False
    n_pred = 0

    def expect(rows, variances_tracked):
        mu = np.zeros((len(rows), m))
        var = np.zeros((len(rows), m, m))
        for r, i in enumerate(rows):
            s = snap[i]
            if tm and len(s) > 0:
                for j in range(m):
                    mu[r, j] = math.fsum(y[j] for y in s) / len(s)
            if variances_tracked:
                if len(s) > 1:
                    for j in range(m):
                        mean = math.fsum(y[j] for y in s) / len(s)
                        var[r, j, j] = math.fsum((y[j] - mean) ** 2 for y in s) / len(s)
                else:
                    var[r] = np.eye(m) * nv
            else:
                var[r] = np.eye(m)
        return mu, var

    for op in case["ops"]:
        kind = op[0]
        if kind == "add":
            idx, Y = op[1]["idx"], np.array(op[1]["Y"], float).reshape(len(op[1]["idx"]), m)
            if op[1].get("as_set"):
                sidx = set(idx)
                order_ = list(sidx)  # the pairing the callers (algorithms) rely on: iteration order
                if order_ != sorted(order_):
                    labels.append("set-unsorted-iteration")
                    nt = True
                Ypass = Y[: len(order_)].copy()
                model.add_sample(sidx, Ypass)
                if case.get("reuse_buffers"):  # the caller recycles its array: the model must hold what it was given
                    Ypass[...] = -777.25
                for i, y in zip(order_, Y[: len(order_)]):
                    acc[i].append(y.tolist())
                    adds_per_design[i] += 1
            else:
                if len(set(idx)) < len(idx):
                    labels.append("repeated-index")
                    nt = True
                Ypass = Y.copy()
                model.add_sample(list(idx), Ypass)
                if case.get("reuse_buffers"):
                    Ypass[...] = -777.25
                for i, y in zip(idx, Y):
                    acc[i].append(y.tolist())
                for i in set(idx):
                    adds_per_design[i] += 1
            dirty = True
        elif kind == "add_bad":
            idx, Y = op[1]["idx"], np.array(op[1]["Y"], float).reshape(len(op[1]["idx"]), m)
            try:
                model.add_sample(list(idx), Y)
            except ValueError:
                pass
            else:
                return Result.violation("C16:out-of-range-accepted", f"indices {idx} design_count {K}", labels)
            # 'state unchanged' is observed behaviourally: the generator follows every rejected add with
            # update + predict of all designs, compared with the accumulator (which ignored the add)
            rejected = True
            labels.append("rejected-add")
        elif kind == "update":
            model.update()
            snap = [list(a) for a in acc]
            dirty = False
        elif kind == "clear":
            model.clear_data()
            acc = [[] for _ in range(K)]
            dirty = True
        elif kind == "predict":
            if snap is None:
                continue
            rows = op[1]
            X = _predict_rows(in_dim, rows)
            auer_toggle = bool(op[2]) and tv
            if auer_toggle:
                model.track_variances = False
            mu, var = model.predict(X)
            if auer_toggle:
                model.track_variances = True
            mu, var = np.asarray(mu), np.asarray(var)
            if mu.shape != (len(rows), m) or var.shape != (len(rows), m, m):
                return Result.violation("C16:shape", f"mean {mu.shape} var {var.shape} rows {len(rows)} m {m}", labels)
            if dirty:
                continue
            emu, evar = expect(rows, tv and not auer_toggle)
            scale = max([1.0] + [abs(v) for s in snap for y in s for v in y])
            if not np.allclose(mu, emu, rtol=0, atol=1e-9 * scale):
                r = int(np.argmax(np.abs(mu - emu).max(axis=1)))
                return Result.violation("C16:mean", f"design {rows[r]} got {mu[r].tolist()} expected {emu[r].tolist()} "
                                        f"n_samples {len(snap[rows[r]])}", labels)
            # two-pass population variance is accurate relative to the variance itself, not to the squared magnitude
            vtol = 1e-9 * np.abs(evar) + 1e-24 * scale * scale + 1e-300
            if np.any(np.abs(var - evar) > vtol):
                r = int(np.argmax(np.abs(var - evar).reshape(len(rows), -1).max(axis=1)))
                return Result.violation("C16:variance", f"design {rows[r]} got {np.diag(var[r]).tolist()} expected "
                                        f"{np.diag(evar[r]).tolist()} n_samples {len(snap[rows[r]])}", labels)
            n_pred += 1
            if any(adds_per_design[i] >= 2 for i in rows):
                nt = True
            if rejected:
                nt = True
            if any(len(snap[i]) == 0 for i in rows):
                labels.append("predict-empty-design")
            if any(len(snap[i]) == 1 for i in rows):
                labels.append("predict-single-sample")
    if n_pred == 0:
        return Result.ok(labels + ["no-compared-predict"], False)
    return Result.ok(sorted(set(labels)), nt)


@st.composite
def st_case(draw):
    in_dim = draw(st.integers(1, 3))
    m = draw(st.integers(1, 3))
    K = draw(st.sampled_from([1, 2, 3, 5, 9, 12, 20]))
    # incl. a large common offset with a small spread (where one-pass variance formulas cancel catastrophically)
    offs = st.tuples(st.sampled_from([1e3, -1e3, 1e5, 1e6]), st.floats(-1, 1), st.sampled_from([1.0, 1e-2, 1e-4])).map(lambda t: t[0] + t[1] * t[2])
    val = st.one_of(st.floats(-1e3, 1e3), st.integers(-8, 8).map(lambda k: k / 4), st.floats(-1, 1), offs, offs)
    ops = []
    for _ in range(draw(st.integers(1, 14))):
        kind = draw(st.sampled_from(["add", "add", "add", "update", "update", "predict", "predict", "clear", "add_bad"]))
        if kind == "add":
            as_set = draw(st.booleans())
            if as_set:
                idx = draw(st.lists(st.integers(0, K - 1), min_size=1, max_size=min(K, 6), unique=True))
            else:
                idx = draw(st.lists(st.integers(0, K - 1), min_size=1, max_size=6))
            Y = [[draw(val) for _ in range(m)] for _ in idx]
            ops.append(["add", {"idx": idx, "as_set": as_set, "Y": Y}])
        elif kind == "add_bad":
            idx = draw(st.lists(st.integers(0, K - 1), min_size=0, max_size=3))
            pos = draw(st.integers(0, len(idx)))
            idx.insert(pos, K + draw(st.sampled_from([0, 0, 1, 7])))
            Y = [[draw(val) for _ in range(m)] for _ in idx]
            ops.append(["add_bad", {"idx": idx, "Y": Y}])
            ops.append(["update"])
            ops.append(["predict", list(range(K)), False])
        elif kind == "predict":
            rows = draw(st.lists(st.integers(0, K - 1), min_size=1, max_size=6))
            ops.append(["predict", rows, draw(st.booleans())])
        else:
            ops.append([kind])
            if kind == "update" and draw(st.booleans()):
                ops.append(["predict", list(range(K)), False])
    return {"in_dim": in_dim, "m": m, "K": K, "noise_var": draw(st.sampled_from([1.0, 0.01, 2.5])),
            "track_means": draw(st.sampled_from([True, True, True, False])),
            "track_vars": draw(st.sampled_from([True, True, False])), "ops": ops, "reuse_buffers": draw(st.booleans())}


COMPONENTS = [
    Component("history_vs_accumulator", check, strategy=st_case, quick=4000, thorough=150000, fuzz_runs=1500,
              rule="1..14 ops over 1..20 designs, m=1..3; indices as lists (repeats) or sets (incl. >=8 so set order != sorted)"),
]
