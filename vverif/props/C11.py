"""C11 - pessimistic rectangle comparison is sound, and complete for two-facet 2-D cones."""
from __future__ import annotations

import itertools
from types import SimpleNamespace

import numpy as np
from hypothesis import strategies as st

from vverif import gen
from vverif import gen_regions as gr
from vverif.core import Component, Result
from vverif.oracles import geom

RULE = ("case = (cone, rectangle pair) with the first rectangle placed so that the certified pessimistic margin  min_{v vertex of R1} "
        "max_{z' in R2} min_n w_n.(v-z')  is +-{1,.3,.1,1e-2,1e-3,1e-4} x scale; oracle = per-vertex LP (HiGHS) with primal/dual "
        "certificates re-verified by arithmetic; soundness for all cones, completeness for 2x2 cones; plus pessimistic-set consequence on "
        "families of 2..6 rectangles. non-trivial = |margin| <= 10% scale, or R1 inside R2, or a zero-width edge, or equal coordinates")
ASSUMPTIONS = ["band 1e-9*scale (pure floating-point routine)", "cones pointed and solid"]


def pess_margin(W, r1, r2):
    l1, u1 = np.array(r1["lo"], float), np.array(r1["hi"], float)
    l2, u2 = np.array(r2["lo"], float), np.array(r2["hi"], float)
    lbs, ubs = [], []
    for v in itertools.product(*zip(l1, u1)):
        v = np.array(v)
        lb, ub, _ = geom.box_cone_margin(W, v - u2, v - l2, None)
        lbs.append(lb)
        ubs.append(ub)
    return min(lbs), min(ubs)


def _labels(spec, r1, r2):
    lab = list(gen.cone_labels(spec))
    l1, u1, l2, u2 = map(np.array, (r1["lo"], r1["hi"], r2["lo"], r2["hi"]))
    nt = False
    if np.all(l1 >= l2) and np.all(u1 <= u2):
        lab.append("R1-inside-R2")
        nt = True
    if np.any(l1 == u1) or np.any(l2 == u2):
        lab.append("zero-width-edge")
        nt = True
    if np.any(l1 == l2) or np.any(u1 == u2) or np.any(l1 == u2) or np.any(u1 == l2):
        lab.append("equal-coordinate")
        nt = True
    return lab, nt


def check_pair(case):
    from vopy.confidence_region import confidence_region_check_dominates

    spec = case["cone"]
    order = gen.make_order(spec)
    W = np.asarray(order.ordering_cone.W, float)
    r1, r2 = case["r1"], case["r2"]
    labels, nt = _labels(spec, r1, r2)
    two_by_two = W.shape == (2, 2)
    labels.append("2x2" if two_by_two else "general")
    if case.get("first"):  # objects used in a comparison before they were moved / refined to the case's rectangles
        R1, R2, r1, r2 = gr.region_pair(case, "rect", lambda a, b: confidence_region_check_dominates(order, a, b))
        labels.append("refined-by:" + case["first"].get("mode", "update"))
    else:
        R1, R2 = gr.mk_rect(r1), gr.mk_rect(r2)
    got = bool(confidence_region_check_dominates(order, R1, R2))
    lb, ub = pess_margin(W, r1, r2)
    scale = gr.region_scale(r1, r2)
    tau = 1e-9 * scale
    if got and ub < -tau:
        return Result.violation("C11:unsound-true", f"answered True but margin <= {ub:.3e} (scale {scale:.3e}) W={W.tolist()} r1={r1} r2={r2}", labels)
    if two_by_two and (not got) and lb > tau:
        return Result.violation("C11:incomplete-2x2", f"answered False but margin >= {lb:.3e} (scale {scale:.3e}) W={W.tolist()} r1={r1} r2={r2}", labels)
    if -tau <= ub and lb <= tau:
        return Result.indet(labels + ["band"])
    rel = min(abs(lb), abs(ub)) / scale
    labels.append("margin<=1e-3" if rel <= 1e-3 else "margin<=1e-1" if rel <= 0.1 else "margin>1e-1")
    labels.append("positive" if lb > tau else "negative")
    return Result.ok(labels, nt or rel <= 0.1)


def check_family(case):
    from vopy.algorithms.epal import EpsilonPAL
    from vopy.algorithms.vogp import VOGP

    spec = case["cone"]
    order = gen.make_order(spec)
    W = np.asarray(order.ordering_cone.W, float)
    rects = case["rects"]
    n = len(rects)
    regions = [gr.mk_rect(r) for r in rects]
    S = set(case["S"])
    P = set(range(n)) - S
    labels = list(gen.cone_labels(spec)) + [f"n={n}"]
    two_by_two = W.shape == (2, 2)
    scale = gr.region_scale(*rects)
    tau = 1e-9 * scale
    dom_lb = np.full((n, n), -np.inf)
    dom_ub = np.full((n, n), -np.inf)
    for i in range(n):
        for j in range(n):
            if i != j:
                dom_lb[i, j], dom_ub[i, j] = pess_margin(W, rects[i], rects[j])  # i pessimistically dominates j
    must_out = {j for j in range(n) if any(dom_lb[i, j] > tau for i in range(n) if i != j)}   # certainly dominated
    may_out = {j for j in range(n) if any(dom_ub[i, j] >= -tau for i in range(n) if i != j)}  # possibly dominated
    from vopy.confidence_region import confidence_region_check_dominates

    # the set must be the definition applied to the pairwise comparison itself (exact, also for ties and any cone)
    pair = {(y, x): bool(confidence_region_check_dominates(order, regions[y], regions[x])) for x in range(n) for y in range(n) if x != y}
    by_definition = {x for x in range(n) if not any(pair[(y, x)] for y in range(n) if y != x)}
    if any(pair[(y, x)] and pair[(x, y)] for x in range(n) for y in range(x)):
        labels.append("mutual-domination-tie")
    for cls in (VOGP, EpsilonPAL):
        ns = SimpleNamespace(S=set(S), P=set(P), order=order, design_space=SimpleNamespace(confidence_regions=regions))
        got = cls.compute_pessimistic_set(ns)
        if not isinstance(got, set) or not got <= set(range(n)):
            return Result.violation(f"C11:pess-set:{cls.__name__}:type", f"{got!r}", labels)
        if got != by_definition:
            return Result.violation(f"C11:pess-set:{cls.__name__}:not-the-undominated-set-of-the-pairwise-comparison",
                                    f"got {sorted(got)}, designs no other active design pessimistically dominates: {sorted(by_definition)}; rects={rects} W={W.tolist()}", labels)
        # soundness (all cones): nothing outside may_out may be excluded
        wrongly_excluded = (set(range(n)) - got) - may_out
        if wrongly_excluded:
            return Result.violation(f"C11:pess-set:{cls.__name__}:excluded-undominated", f"excluded {sorted(wrongly_excluded)} got {sorted(got)} rects={rects} W={W.tolist()}", labels)
        if two_by_two:
            wrongly_kept = got & must_out
            if wrongly_kept:
                return Result.violation(f"C11:pess-set:{cls.__name__}:kept-dominated", f"kept {sorted(wrongly_kept)} got {sorted(got)} rects={rects} W={W.tolist()}", labels)
    nt = bool(must_out) and len(must_out) < n
    return Result.ok(labels + (["some-dominated"] if must_out else []), nt)


@st.composite
def st_pair(draw, two=False):
    spec = draw(st.one_of(gen.st_theta(), st.just({"kind": "comp", "m": 2}), gen.st_dyadic_cone(2, 0), gen.st_diag_cone(2, 0))
                if two else gen.st_cone(max_extra=3))
    W = gen.cone_W(spec) if spec["kind"] in ("W", "diag") else np.asarray(gen.make_order(spec).ordering_cone.W)
    m = W.shape[1]
    scale = draw(gen.st_logfloat(1e-4, 1e2))
    r1 = draw(gr.st_rect(m, scale * draw(st.sampled_from([1.0, 1.0, 0.1, 0.01]))))
    r2 = draw(gr.st_rect(m, scale * draw(st.sampled_from([1.0, 1.0, 0.1, 0.01]))))
    mode = draw(st.sampled_from(["targeted", "targeted", "targeted", "nested", "shared-coordinate", "raw"]))
    if mode == "nested":
        l2, u2 = np.array(r2["lo"]), np.array(r2["hi"])
        f1 = np.array([draw(st.floats(0, 1)) for _ in range(m)])
        f2 = np.array([draw(st.floats(0, 1)) for _ in range(m)])
        a, b = l2 + np.minimum(f1, f2) * (u2 - l2), l2 + np.maximum(f1, f2) * (u2 - l2)
        return {"cone": spec, "r1": {"lo": a.tolist(), "hi": b.tolist()}, "r2": r2}
    if mode == "shared-coordinate":
        k = draw(st.integers(0, m - 1))
        r1["lo"][k] = r2[draw(st.sampled_from(["lo", "hi"]))][k]
        r1["hi"][k] = max(r1["hi"][k], r1["lo"][k])
        if draw(st.booleans()):
            r1["hi"][k] = r1["lo"][k] + (r2["hi"][k] - r2["lo"][k])
        return {"cone": spec, "r1": r1, "r2": r2}
    if mode == "raw":
        return {"cone": spec, "r1": r1, "r2": r2}
    v = gr.interior_dir(W)
    l1, u1 = np.array(r1["lo"]), np.array(r1["hi"])

    def f(t):
        lb, ub = pess_margin(W, {"lo": l1 + t * v, "hi": u1 + t * v}, r2)
        return (lb + ub) / 2

    target = draw(st.sampled_from([1, -1])) * draw(st.sampled_from([1.0, 0.3, 0.1, 1e-2, 1e-3, 1e-4])) * scale
    t = gr.solve_shift(f, target, -1e3 * scale, 1e3 * scale, iters=30)
    off = draw(gr.st_offset(m))
    return {"cone": spec, "r1": gr.shift_region({"lo": (l1 + t * v).tolist(), "hi": (u1 + t * v).tolist()}, off), "r2": gr.shift_region(r2, off)}


@st.composite
def st_pair_updated(draw):
    case = draw(st_pair(draw(st.booleans())))
    m = len(case["r1"]["lo"])
    sc = max(1e-6, float(np.max(np.array(case["r1"]["hi"]) - np.array(case["r1"]["lo"]))))
    case["first"] = draw(gr.st_first_pair("rect", m, sc))
    return case


@st.composite
def st_family(draw):
    two = draw(st.booleans())
    spec = draw(st.one_of(gen.st_theta(), st.just({"kind": "comp", "m": 2}), gen.st_diag_cone(2, 0)) if two else gen.st_cone(max_extra=2))
    m = gen.spec_dim(spec)
    n = draw(st.integers(2, 6 if m == 2 else 4))
    scale = draw(gen.st_logfloat(1e-2, 1e1))
    rects = []
    for _ in range(n):
        mode = draw(st.sampled_from(["free", "free", "free", "copy", "same-lower", "same-upper"])) if rects else "free"
        r = draw(gr.st_rect(m, scale * draw(st.sampled_from([1.0, 0.3, 0.1]))))
        if mode != "free":  # ties: identical rectangles / shared worst or best corner (mutual pessimistic domination)
            b = rects[draw(st.integers(0, len(rects) - 1))]
            if mode == "copy":
                r = {"lo": list(b["lo"]), "hi": list(b["hi"])}
            elif mode == "same-lower":
                w = [h - l for l, h in zip(r["lo"], r["hi"])]
                r = {"lo": list(b["lo"]), "hi": [l + x for l, x in zip(b["lo"], w)]}
            else:
                w = [h - l for l, h in zip(r["lo"], r["hi"])]
                r = {"lo": [h - x for h, x in zip(b["hi"], w)], "hi": list(b["hi"])}
        rects.append(r)
    S = draw(st.lists(st.integers(0, n - 1), unique=True, min_size=1, max_size=n))
    return {"cone": spec, "rects": rects, "S": sorted(S)}


COMPONENTS = [
    Component("pair_2x2_complete_and_sound", check_pair, strategy=lambda: st_pair(True), quick=2500, thorough=60000, fuzz_runs=800,
              rule="two-facet 2-D cones (theta in (1,179), orthant, dyadic and unit-normal 2x2)"),
    Component("pair_all_cones_sound", check_pair, strategy=lambda: st_pair(False), quick=1000, thorough=25000,
              rule="all cone classes incl. K>m and 3-4-D: soundness only"),
    Component("pair_updated_objects", check_pair, strategy=st_pair_updated, quick=500, thorough=12000,
              rule="region objects built for another pair (or, with intersect_iteratively=True, around the case's pair), compared once, "
                   "then moved to the case's pair through update() / intersect(); completeness for 2x2 cones, soundness for all"),
    Component("pessimistic_set_consequence", check_family, strategy=st_family, quick=500, thorough=12000,
              rule="VOGP/EpsilonPAL.compute_pessimistic_set on 2..6 rectangles vs the set nobody pessimistically dominates"),
]
