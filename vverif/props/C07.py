"""C07 - samples go to the acquisition maximiser among active designs and reach the model."""
from __future__ import annotations

import numpy as np
from hypothesis import strategies as st

from vverif import gen, gen_runs
from vverif.core import Component, Result
from vverif.harness import algos as ha

RULE = ("(i) discrete optimisers alone on generated acquisition value tables with ties and duplicates (table-backed acquisition whose rows carry their id), "
        "q = 1..rows+2, decoupled tables per objective with costs; (ii) every evaluation of generated runs of all nine algorithms: queried points are active "
        "designs, they maximise the acquisition recomputed by the harness on the state the code used (region diagonals after modeling; sum of predictive "
        "variances / cost-weighted single variances from model.predict before the step; the tables actually returned by the Thompson acquisition; every active "
        "design once), batches distinct and non-increasing, and the model's data after the step = data before + exactly the logged (x, y, objective) triples in "
        "order. non-trivial = batch >= 2, or ties in the table, or >= 3 active designs with distinct acquisition values")
ASSUMPTIONS = ["near-ties (1e-9 relative) accept either choice", "GP hyper-parameters generated, not trained"]


# ------------------------------------------------------------------ (i) optimisers alone
def check_optimiser(case):
    from vopy.acquisition import optimize_acqf_discrete
    from vopy.acquisition.acquisition import AcquisitionStrategy

    vals = np.array(case["values"], float)
    n = len(vals)
    d = case["d"]
    choices = np.zeros((n, d))
    choices[:, 0] = np.arange(n)  # row id
    choices[:, 1:] = np.array(case["junk"], float).reshape(-1)[: n * (d - 1)].reshape(n, d - 1) if d > 1 else choices[:, 1:]
    q = case["q"]
    labels = [f"n={'1' if n == 1 else '2-5' if n <= 5 else '>5'}"]

    class Table(AcquisitionStrategy):
        def forward(self, x):
            return vals[np.asarray(x)[:, 0].astype(int)].copy()

    before = choices.copy()
    cand, av = optimize_acqf_discrete(Table(), q, choices)
    cand, av = np.asarray(cand), np.asarray(av, float)
    if not np.array_equal(choices, before):
        return Result.violation("C07:opt:choices-mutated", "", labels)
    k = min(q, n)
    if cand.ndim != 2 or cand.shape != (k, d) or av.shape != (k,):
        return Result.violation("C07:opt:shape", f"candidates {cand.shape} values {av.shape} expected ({k},{d})", labels)
    ids = cand[:, 0].astype(int).tolist()
    if len(set(ids)) != len(ids):
        return Result.violation("C07:opt:duplicate-choice", f"rows {ids}", labels)
    if any(not np.array_equal(cand[i], choices[ids[i]]) for i in range(k)):
        return Result.violation("C07:opt:row-not-from-choices", f"rows {ids}", labels)
    if not np.array_equal(av, vals[ids]):
        return Result.violation("C07:opt:value-row-mismatch", f"returned values {av.tolist()} table {vals[ids].tolist()}", labels)
    if np.any(np.diff(av) > 0):
        return Result.violation("C07:opt:not-non-increasing", f"{av.tolist()}", labels)
    if not np.array_equal(np.sort(av)[::-1], np.sort(vals)[::-1][:k]):
        return Result.violation("C07:opt:not-top-q", f"returned {av.tolist()} top-q {np.sort(vals)[::-1][:k].tolist()}", labels)
    ties = len(set(vals.tolist())) < n
    if ties:
        labels.append("ties")
    if q > n:
        labels.append("q>rows")
    return Result.ok(labels, q >= 2 or ties)


def check_decoupled_optimiser(case):
    from vopy.acquisition import optimize_decoupled_acqf_discrete
    from vopy.acquisition.acquisition import DecoupledAcquisitionStrategy

    T = np.array(case["table"], float)  # (m, n)
    m, n = T.shape
    costs = case["costs"]
    if costs is not None:
        T = T / np.array(costs, float)[:, None]
    d = 2
    choices = np.zeros((n, d))
    choices[:, 0] = np.arange(n)
    choices[:, 1] = 0.5
    q = case["q"]
    labels = [f"m={m}", "costs" if costs is not None else "no-costs"]

    class Table(DecoupledAcquisitionStrategy):
        def forward(self, x):
            if self.evaluation_index is None:
                raise AssertionError("evaluation_index can't be None during forward.")
            return T[self.evaluation_index][np.asarray(x)[:, 0].astype(int)].copy()

    saved = case["saved_index"]
    acq = Table(m, saved, costs)
    cand, av, ei = optimize_decoupled_acqf_discrete(acq, q, choices)
    cand, av, ei = np.asarray(cand), np.asarray(av, float), np.asarray(ei)
    if acq.evaluation_index != saved:
        return Result.violation("C07:dec-opt:evaluation-index-not-restored", f"{acq.evaluation_index} vs {saved}", labels)
    k = min(q, n * m)
    if cand.shape != (k, d) or av.shape != (k,) or ei.shape != (k,):
        return Result.violation("C07:dec-opt:shape", f"{cand.shape} {av.shape} {ei.shape} expected k={k}", labels)
    pairs = [(int(cand[i, 0]), int(ei[i])) for i in range(k)]
    if len(set(pairs)) != k:
        return Result.violation("C07:dec-opt:duplicate-pair", f"{pairs}", labels)
    if any(not (0 <= r < n and 0 <= j < m) for r, j in pairs):
        return Result.violation("C07:dec-opt:pair-out-of-range", f"{pairs}", labels)
    exp_vals = np.array([T[j, r] for r, j in pairs])
    if not np.array_equal(av, exp_vals):
        return Result.violation("C07:dec-opt:value-pair-mismatch", f"returned {av.tolist()} table {exp_vals.tolist()} pairs {pairs}", labels)
    if np.any(np.diff(av) > 0):
        return Result.violation("C07:dec-opt:not-non-increasing", f"{av.tolist()}", labels)
    top = np.sort(T.reshape(-1))[::-1][:k]
    if not np.array_equal(np.sort(av)[::-1], top):
        return Result.violation("C07:dec-opt:not-top-q", f"returned {av.tolist()} top-q {top.tolist()}", labels)
    ties = len(set(T.reshape(-1).tolist())) < T.size
    return Result.ok(labels + (["ties"] if ties else []), q >= 2 or ties)


@st.composite
def st_opt(draw):
    n = draw(st.integers(1, 9))
    pool = draw(st.lists(st.floats(-5, 5), min_size=1, max_size=4))
    vals = [draw(st.one_of(st.sampled_from(pool), st.floats(-5, 5))) for _ in range(n)]
    d = draw(st.integers(1, 3))
    return {"values": vals, "d": d, "junk": [draw(st.floats(0, 1)) for _ in range(n * 2)], "q": draw(st.integers(1, n + 2))}


@st.composite
def st_dec_opt(draw):
    n, m = draw(st.integers(1, 6)), draw(st.integers(2, 3))
    pool = draw(st.lists(st.floats(0, 5), min_size=1, max_size=3))
    table = [[draw(st.one_of(st.sampled_from(pool), st.floats(0, 5))) for _ in range(n)] for _ in range(m)]
    costs = draw(st.one_of(st.none(), st.lists(st.sampled_from([0.5, 1.0, 2.0, 4.0]), min_size=m, max_size=m)))
    return {"table": table, "costs": costs, "q": draw(st.integers(1, n * m + 2)), "saved_index": draw(st.one_of(st.none(), st.integers(0, m - 1)))}


# ------------------------------------------------------------------ (ii) every evaluation of runs
MAX_STEPS = 40


def _locate(X, x):
    x = np.asarray(x, float).reshape(-1, X.shape[1]) if np.asarray(x).ndim <= 2 else x
    return ((x[:, None, :] - X[None, :, :]) ** 2).sum(-1).argmin(1).tolist()


def _model_rows(md):
    """Flatten model-data snapshot to a comparable list of (design-or-x tuple, y tuple, objective)."""
    kind, dat = md
    if kind == "gp":
        return [(tuple(np.round(x, 12)), tuple(y), None) for x, y in zip(dat[0], dat[1])]
    if kind == "list":
        return [[(tuple(np.round(x, 12)), (float(y),), j) for x, y in zip(xs, ys)] for j, (xs, ys) in enumerate(dat)]
    if kind == "emp":
        return [[tuple(r) for r in s] for s in dat]
    return dat


def check_run(spec):
    algo = spec["algo"]
    labels = ["algo=" + algo, "source=" + spec.get("source", "real")]
    tables = []
    if algo == "DecoupledGP":
        import vopy.algorithms.decoupled as dmod

        Real = dmod.ThompsonEntropyDecoupledAcquisition

        class Rec(Real):
            def forward(self, x):
                v = super().forward(x)
                tables.append((np.array(x, float).copy(), int(self.evaluation_index), np.array(v, float).copy()))
                return v

        dmod.ThompsonEntropyDecoupledAcquisition = Rec
    try:
        alg, ctx = ha.build(spec)
        return _drive(spec, alg, ctx, labels, tables)
    finally:
        if algo == "DecoupledGP":
            dmod.ThompsonEntropyDecoupledAcquisition = Real


def _drive(spec, alg, ctx, labels, tables):
    algo = spec["algo"]
    rec = ctx.recorder
    X = np.array(spec["X"], float) if algo != "VOGP_AD" else None
    q = spec.get("batch", 1)
    costs = np.array(spec["costs"], float) if spec.get("costs") is not None else None
    steps = 0
    nt = False
    rel = 1e-9

    def viol(sig, detail):
        return Result.violation(f"C07:{sig}:{algo}", detail + f" [step {steps}]", labels)

    while steps < MAX_STEPS:
        b = ha.snapshot(alg, ctx)
        ncall = len(rec.calls)
        ntab = len(tables)
        nref = len(getattr(ctx, "refines", []))
        pre_vals = None
        if algo in ("PaVeBaGP", "PaVeBaPartialGP"):
            A0 = sorted(b["S"] | b["U"])
            _, cv = alg.model.predict(alg.design_space.points[A0])
            pre_vals = (A0, np.diagonal(np.asarray(cv, float), axis1=-2, axis2=-1).copy())
        flag = alg.run_one_step()
        a = ha.snapshot(alg, ctx)
        steps += 1
        calls = rec.calls[ncall:]
        # ---------------- which designs / objectives were queried
        triples = []  # (design or x-row tuple, objective or None, y)
        for x, ei, y in calls:
            x = np.atleast_2d(x)
            if algo == "VOGP_AD":
                ids = [tuple(np.round(r, 12)) for r in x]
            else:
                xr = x[:, : X.shape[1]]
                ids = _locate(X, xr)
                if np.max(np.abs(X[ids] - xr)) > 1e-6:
                    return viol("query-not-a-design", f"queried {xr.tolist()}")
            yy = np.asarray(y, float)
            for k, i in enumerate(ids):
                obj = None if ei is None else (int(ei) if np.ndim(ei) == 0 else int(ei[k]))
                triples.append((i, obj, yy[k]))
        qd = [t[0] for t in triples]
        # ---------------- active set at evaluation time and acquisition recomputation
        if algo in ("PaVeBa", "Auer", "NaiveElimination"):
            active = sorted(b["S"] | (b["U"] or set())) if algo != "NaiveElimination" else list(range(len(X)))
            if b["S"] is not None and not b["S"]:
                active = []
            if algo == "NaiveElimination" and b["round"] == getattr(alg, "L", None):
                active = []
            if sorted(qd) != active:
                return viol("not-every-active-design-once", f"queried {sorted(qd)} active {active}")
            nt |= len(active) >= 3
        elif algo in ("VOGP", "EpsilonPAL", "VOGP_AD"):
            if a["S"]:
                act = sorted(a["S"] | a["P"])
                new_ref = getattr(ctx, "refines", [])[nref:]
                if new_ref:
                    parent, children, _ = new_ref[-1]
                    act = sorted((set(act) - set(children)) | {parent})
                diag = {i: float(np.linalg.norm(a["regions"][i][1] - a["regions"][i][0])) for i in act}
                if algo == "VOGP_AD":
                    pts = alg.design_space.points
                    chosen = [parent] if new_ref else [int(np.where(np.all(np.round(pts, 12) == np.array(t), axis=1))[0][0]) for t in qd]
                    if new_ref and qd:
                        return viol("refined-and-evaluated", f"{qd}")
                else:
                    chosen = qd
                k = min(q, len(act))
                r = _check_topq(chosen, diag, k, rel)
                if r:
                    return viol("diagonal-" + r[0], r[1] + f" diagonals={diag}")
                nt |= len({round(v, 9) for v in diag.values()}) >= 3 or k >= 2
            elif qd:
                return viol("sampled-with-empty-S", f"{qd}")
        elif algo == "PaVeBaGP":
            A0, dv = pre_vals
            tot = {i: float(dv[k].sum()) for k, i in enumerate(A0)}
            k = min(q, len(A0)) if b["S"] else 0
            if b["S"]:
                r = _check_topq(qd, tot, k, rel)
                if r:
                    return viol("sum-variance-" + r[0], r[1] + f" values={tot}")
                nt |= len({round(v, 12) for v in tot.values()}) >= 3 or k >= 2
        elif algo == "PaVeBaPartialGP":
            A0, dv = pre_vals
            if b["S"] and not (b["total_cost"] is not None and spec.get("budget") is not None and b["total_cost"] >= spec["budget"]):
                val = {(i, j): float(dv[k, j] / (costs[j] if costs is not None else 1.0)) for k, i in enumerate(A0) for j in range(dv.shape[1])}
                chosen = [(t[0], t[1]) for t in triples]
                k = min(q, len(val))
                r = _check_topq(chosen, val, k, rel)
                if r:
                    return viol("cost-weighted-variance-" + r[0], r[1])
                nt |= k >= 2 or len(A0) >= 3
        elif algo == "DecoupledGP":
            new_tabs = tables[ntab:]
            if calls:
                picks = {}
                for x, j, v in new_tabs:
                    bi = int(np.argmax(v))
                    did = _locate(X, x[bi: bi + 1, : X.shape[1]])[0]
                    picks.setdefault((did, j), []).append(float(v[bi]))
                chosen = [(t[0], t[1]) for t in triples]
                if any(c not in picks for c in chosen):
                    return viol("thompson-not-a-table-maximiser", f"chosen {chosen} table maximisers {sorted(picks)}")
                allv = sorted((v for vs in picks.values() for v in vs), reverse=True)
                cv = [max(picks[c]) for c in chosen]
                if any(cv[i] < cv[i + 1] - 1e-12 for i in range(len(cv) - 1)):
                    return viol("thompson-not-non-increasing", f"{cv}")
                if len(chosen) != min(q, len(allv)) or (cv and cv[-1] < allv[len(cv) - 1] - 1e-12):
                    return viol("thompson-not-top-q", f"chosen values {cv}, available maximiser values {allv[: len(cv) + 2]}")
                nt |= q >= 2
        # ---------------- queried designs are active (GP algorithms)
        if algo in ("VOGP", "EpsilonPAL"):
            if any(i not in (a["S"] | a["P"]) for i in qd):
                return viol("query-not-active", f"{qd} active {sorted(a['S'] | a['P'])}")
        if algo in ("PaVeBaGP", "PaVeBaPartialGP") and any(i not in (b["S"] | b["U"]) for i in qd):
            return viol("query-not-active", f"{qd} active {sorted(b['S'] | b['U'])}")
        if len(set((t[0], t[1]) for t in triples)) != len(triples):
            return viol("duplicate-in-batch", f"{[(t[0], t[1]) for t in triples]}")
        # ---------------- exactly the returned observations reach the model
        r = _check_model_data(algo, b["model"], a["model"], triples, X, alg, ctx)
        if r:
            return viol("model-data-" + r[0], r[1])
        if flag:
            break
    return Result.ok(labels + ([f"batch={q}"] if q > 1 else []), bool(nt))


def _check_topq(chosen, values, k, rel):
    """chosen: list of keys in selection order; values: key -> acquisition value."""
    if len(chosen) != k:
        return ("batch-size", f"selected {len(chosen)} candidates, expected {k}: {chosen}")
    if len(set(chosen)) != len(chosen):
        return ("duplicate", f"{chosen}")
    if any(c not in values for c in chosen):
        return ("not-active", f"{chosen} not among {sorted(values)}")
    cv = [values[c] for c in chosen]
    sc = max(1e-300, max(abs(v) for v in values.values()))
    tol = rel * sc
    if any(cv[i] < cv[i + 1] - tol for i in range(len(cv) - 1)):
        return ("not-non-increasing", f"selection order values {cv}")
    rest = [v for c, v in values.items() if c not in chosen]
    if rest and cv and min(cv) < max(rest) - tol:
        return ("not-maximiser", f"selected {chosen} with values {cv} but an unselected candidate has {max(rest)}")
    return None


def _check_model_data(algo, mb, ma, triples, X, alg, ctx):
    if mb is None or ma is None:
        return None
    kind = ma[0]
    if kind == "stub":
        new = alg.model.data[mb[1]:]
        exp = [(t[0], t[2], t[1]) for t in triples]
        if len(new) != len(exp) or any(n[0] != e[0] or n[2] != e[2] or not np.array_equal(np.atleast_1d(n[1]), np.atleast_1d(e[1])) for n, e in zip(new, exp)):
            return ("mismatch", f"model received {[(n[0], n[2]) for n in new]} but problem returned {[(e[0], e[2]) for e in exp]}")
        return None
    if kind == "emp":
        for i in range(len(ma[1])):
            old, newv = mb[1][i], ma[1][i]
            add = [t[2] for t in triples if t[0] == i]
            if len(newv) != len(old) + len(add) or not np.array_equal(newv[: len(old)], old) or (add and not np.array_equal(newv[len(old):], np.array(add))):
                return ("mismatch", f"design {i}: model holds {len(newv)} samples, had {len(old)}, {len(add)} observations were returned for it")
        return None
    if kind == "gp":
        ox, oy = mb[1]
        nx, ny = ma[1]
        if len(nx) != len(ox) + len(triples) or not np.array_equal(nx[: len(ox)], ox) or not np.array_equal(ny[: len(oy)], oy):
            return ("mismatch", f"model rows {len(ox)} -> {len(nx)} with {len(triples)} observations returned")
        for k, t in enumerate(triples):
            xr = nx[len(ox) + k]
            exp_x = X[t[0]] if X is not None else np.array(t[0])
            if np.max(np.abs(xr[: len(exp_x)] - exp_x)) > 1e-9 or not np.array_equal(ny[len(oy) + k], t[2]):
                return ("mismatch", f"appended row {k}: x {xr.tolist()} y {ny[len(oy) + k].tolist()} but the problem returned y {np.asarray(t[2]).tolist()} for design {t[0]}")
        return None
    if kind == "list":
        for j, ((ox, oy), (nx, ny)) in enumerate(zip(mb[1], ma[1])):
            add = [t for t in triples if t[1] == j]
            if len(nx) != len(ox) + len(add) or not np.array_equal(nx[: len(ox)], ox) or not np.array_equal(ny[: len(oy)], oy):
                return ("mismatch", f"objective {j}: rows {len(ox)} -> {len(nx)} with {len(add)} observations returned for it")
            for k, t in enumerate(add):
                if np.max(np.abs(nx[len(ox) + k] - X[t[0]])) > 1e-9 or float(ny[len(oy) + k]) != float(t[2]):
                    return ("mismatch", f"objective {j} appended row {k}: x {nx[len(ox) + k].tolist()} y {float(ny[len(oy) + k])} vs design {t[0]} y {float(t[2])}")
        return None
    return None


ALGOS = ["PaVeBa", "PaVeBaGP", "PaVeBaPartialGP", "VOGP", "EpsilonPAL", "Auer", "NaiveElimination", "DecoupledGP"]


@st.composite
def st_spec(draw):
    from vverif.props.C06 import st_spec as c06_spec

    spec = draw(c06_spec())
    algo = spec["algo"]
    m = len(spec["Y"][0])
    # stay inside the domain where known findings F7 do not end the run at once
    if algo in ("PaVeBaGP", "PaVeBaPartialGP") and ha.conf_type(spec) == "rect":
        W = gen_runs.cone_matrix(spec["cone"])
        if W.shape[0] != W.shape[1]:
            spec["cone"] = {"kind": "comp", "m": m}
    if algo == "NaiveElimination" and spec.get("L") is None:
        spec["L"] = 3
    return spec


@st.composite
def st_spec_many_designs(draw):
    """PaVeBa / Auer / NaiveElimination with 9..24 designs, most of them clearly dominated, so that after a few
    eliminations the active set holds few, large, sparse indices (a Python set of such ints does not iterate in
    sorted order - the pairing of queried designs with returned observations is then order-sensitive)."""
    from vverif.harness import data as hdata

    algo = draw(st.sampled_from(["PaVeBa", "PaVeBa", "Auer", "NaiveElimination"]))
    K = draw(st.integers(9, 24))
    m = 2
    eps = 0.3
    tops = draw(st.lists(st.integers(0, K - 1), min_size=2, max_size=4, unique=True))
    Y = []
    for i in range(K):
        if i in tops:
            Y.append([draw(st.floats(-0.3, 0.3)), draw(st.floats(-0.3, 0.3))])
        else:
            g = draw(st.floats(1.0, 30.0))
            Y.append([-g + draw(st.floats(-0.2, 0.2)), -g + draw(st.floats(-0.2, 0.2))])
    spec = {"algo": algo, "cone": {"kind": "comp", "m": m}, "eps": eps, "delta": 0.1, "noise_var": draw(st.sampled_from([0.01, 0.05])),
            "contraction": draw(st.sampled_from([2, 8])), "X": hdata.grid_inputs(K, 2).tolist(), "Y": Y, "seed": draw(st.integers(0, 2**31 - 1)),
            "source": "real"}
    if algo == "Auer":
        spec["empirical"] = draw(st.booleans())
    if algo == "NaiveElimination":
        spec["L"] = 3
    return spec


def _ad():
    from vverif.props.C06 import st_spec_ad

    return st_spec_ad().filter(lambda s: s["problem"]["d"] >= s["problem"]["m"])


COMPONENTS = [
    Component("optimiser_tables", check_optimiser, strategy=st_opt, quick=3000, thorough=80000, fuzz_runs=1500, rule="1..9 rows, values with ties, q = 1..rows+2"),
    Component("decoupled_optimiser_tables", check_decoupled_optimiser, strategy=st_dec_opt, quick=2000, thorough=60000, fuzz_runs=1500,
              rule="m = 2..3 objectives x 1..6 rows, optional costs, q = 1..rows*m+2, saved evaluation index None or int"),
    Component("run_evaluations", check_run, strategy=st_spec, quick=220, thorough=8000, rule="every evaluation of runs of the eight dataset algorithms (<= 40 steps), batch 1..K+3"),
    Component("run_evaluations_many_designs", check_run, strategy=st_spec_many_designs, quick=48, thorough=1500,
              rule="PaVeBa / Auer / NaiveElimination with 9..24 designs, mostly dominated: active sets with large sparse indices"),
    Component("run_evaluations_vogp_ad", check_run, strategy=_ad, quick=16, thorough=400, rule="VOGP_AD: the evaluated or refined node is the max-diagonal active node"),
]
