"""C13 - Pareto-set extraction is exact for every finite set and cone."""
from __future__ import annotations

import itertools

import numpy as np
from hypothesis import strategies as st

from vverif import gen
from vverif.core import Component, Result
from vverif.oracles import geom

RULE = ("cases = (cone, list of points); oracle = brute-force dominance matrix (exact rationals for "
        "dyadic cones and the orthant, 1e-9 relative facet band for irrational bundled cones); non-trivial = "
        ">=3 points with at least one strictly dominated point and (a duplicate value or >=2 Pareto values)")
ASSUMPTIONS = [
    "cones are pointed and solid (VOPy's standing assumption)",
    "coordinates are dyadic rationals with < 30 significant bits (times a power of two), or full-mantissa values within a few ulps of each other: in both cases every difference a-b and every facet product W(a-b) is exact in float64 for the dyadic cones",
]

EXACT_CONES_2D = [
    {"kind": "comp", "m": 2},
    {"kind": "W", "W": [[1.0, -0.25], [-0.25, 1.0]]},
    {"kind": "W", "W": [[1.0, 0.25], [0.5, 1.0]]},
    {"kind": "W", "W": [[1.0, 0.0], [0.0, 1.0], [1.0, -0.5]]},
    {"kind": "W", "W": [[1.0, 0.5], [-0.25, 1.0], [0.5, 0.25], [1.0, 1.0]]},
]
EXACT_CONES_3D = [
    {"kind": "comp", "m": 3},
    {"kind": "W", "W": [[1.0, -0.25, 0.0], [0.0, 1.0, -0.25], [-0.25, 0.0, 1.0]]},
    {"kind": "W", "W": [[1.0, 0.25, 0.0], [0.0, 1.0, 0.25], [0.25, 0.0, 1.0], [1.0, 1.0, -0.5]]},
]


def is_exact(spec):
    return spec["kind"] in ("W", "comp")


def check(case):
    spec, pts = case["cone"], case["points"]
    P = np.array(pts, float)
    order = gen.make_order(spec)
    W = order.ordering_cone.W
    n = len(P)
    labels = list(gen.cone_labels(spec)) + [f"n={'1' if n == 1 else '2-5' if n <= 5 else '6-50' if n <= 50 else '>50'}"]
    if not is_exact(spec):
        V = np.abs((P[:, None, :] - P[None, :, :]) @ W.T)
        dn = np.abs(P[:, None, :] - P[None, :, :]).max(axis=-1)  # differences are exact; the band is relative to them
        nz = dn > 0
        if np.any((V < 1e-9 * dn[:, :, None]) & nz[:, :, None]):
            return Result.indet(labels + ["boundary-pair-irrational-cone"])
    D = geom.dominance_matrix(P, W, exact=is_exact(spec))  # D[i,j]: i weakly dominates j
    strict = D & ~D.T
    dominated = strict.any(axis=0)  # j strictly dominated by someone
    pareto_idx = [i for i in range(n) if not dominated[i]]
    values = {tuple(P[i]) for i in pareto_idx}

    fast = order.get_pareto_set(P.copy())
    naive = order.get_pareto_set_naive(P.copy())

    def bad(sig, detail):
        return Result.violation(f"C13:{sig}", detail + f" cone={spec} points={pts[:12]}", labels)

    for name, idx in (("fast", fast), ("naive", naive)):
        idx = np.asarray(idx)
        if idx.ndim != 1 or (len(idx) and not np.issubdtype(idx.dtype, np.integer)):
            return bad(f"{name}:index-type", f"indices {idx!r}")
        li = [int(i) for i in idx]
        if any(i < 0 or i >= n for i in li):
            return bad(f"{name}:index-range", f"indices {li}")
        if any(b <= a for a, b in zip(li, li[1:])):
            return bad(f"{name}:not-increasing", f"indices {li}")
        if any(dominated[i] for i in li):
            return bad(f"{name}:contains-dominated", f"indices {li} expected subset of {pareto_idx}")
        if not all(any(D[i, j] for i in li) for j in range(n)):
            return bad(f"{name}:input-not-covered", f"indices {li} expected {pareto_idx}")
    lf = [int(i) for i in fast]
    vf = [tuple(P[i]) for i in lf]
    if len(set(vf)) != len(vf):
        return bad("fast:duplicate-value-kept", f"indices {lf}")
    if set(vf) != values:
        return bad("fast:value-set", f"indices {lf} expected values of {pareto_idx}")
    if [int(i) for i in naive] != pareto_idx:
        return bad("naive:not-all-nondominated", f"indices {list(map(int, naive))} expected {pareto_idx}")
    dup = len({tuple(p) for p in P}) < n
    if dup:
        labels.append("duplicates")
    nt = n >= 3 and dominated.any() and (dup or len(values) >= 2)
    return Result.ok(labels, nt)


def enum_small(tier):
    maxlen = 4 if tier == "quick" else 5
    lat2 = [[x / 2, y / 2] for x in range(3) for y in range(3)]
    for spec in EXACT_CONES_2D:
        for L in range(1, maxlen + 1):
            for pts in itertools.product(lat2, repeat=L):
                yield {"cone": spec, "points": [list(p) for p in pts]}
    lat3 = [[x / 2, y / 2, z / 2] for x in range(2) for y in range(2) for z in range(2)]
    for spec in EXACT_CONES_3D:
        for L in range(1, (4 if tier == "quick" else 5) + 1):
            for pts in itertools.product(lat3, repeat=L):
                yield {"cone": spec, "points": [list(p) for p in pts]}


@st.composite
def st_case(draw, maxn=60):
    spec = draw(gen.st_cone())
    m = gen.spec_dim(spec)
    style = draw(st.sampled_from(["lattice", "lattice", "chain", "dups", "wide", "ulps"]))
    n = draw(st.integers(1, maxn))
    if style == "ulps":
        # full-mantissa values that differ by a few units in the last place: differences are exact, the values'
        # own facet products are not (an implementation must compare W(a-b), not Wa with Wb)
        e = draw(st.sampled_from([-20, 0, 10, 20, 30]))
        B = [draw(st.integers(2 ** 52 + 64, 2 ** 53 - 64)) for _ in range(m)]
        sg = [draw(st.sampled_from([1, -1])) for _ in range(m)]
        ks = draw(st.lists(st.lists(st.integers(-6, 6), min_size=m, max_size=m), min_size=n, max_size=n))
        return {"cone": spec, "points": [[s_ * float(b + k) * 2.0 ** (e - 52) for b, k, s_ in zip(B, kk, sg)] for kk in ks]}
    if style == "lattice":
        span = draw(st.integers(1, 6))
        pt = st.lists(gen.st_dyadic(-span, span, 4), min_size=m, max_size=m)
        pts = draw(st.lists(pt, min_size=n, max_size=n))
    elif style == "wide":
        pt = st.lists(gen.st_dyadic(-64, 64, 4), min_size=m, max_size=m)
        pts = draw(st.lists(pt, min_size=n, max_size=n))
    elif style == "chain":
        base = draw(st.lists(gen.st_dyadic(-4, 4, 4), min_size=m, max_size=m))
        step = draw(st.lists(gen.st_dyadic(-1, 1, 4), min_size=m, max_size=m))
        ks = draw(st.lists(st.integers(-6, 6), min_size=n, max_size=n))
        pts = [[b + k * s for b, s in zip(base, step)] for k in ks]
    else:
        pool = draw(st.lists(st.lists(gen.st_dyadic(-3, 3, 4), min_size=m, max_size=m), min_size=1, max_size=6))
        pts = [pool[i] for i in draw(st.lists(st.integers(0, len(pool) - 1), min_size=n, max_size=n))]
    # the order is translation invariant: sometimes move the whole (exactly representable) set far from the origin
    off = draw(st.sampled_from([0, 0, 0, 0, 4096, 100000, 3000000]))
    if off:
        sgn = [draw(st.sampled_from([1, -1])) for _ in range(m)]
        pts = [[x + s_ * off for x, s_ in zip(p, sgn)] for p in pts]
    # ... and positively homogeneous: power-of-two rescaling (exact) to very small / large magnitudes
    k = draw(st.sampled_from([0, 0, 0, 0, -30, -60, 20]))
    if k:
        pts = [[x * 2.0 ** k for x in p] for p in pts]
    return {"cone": spec, "points": pts}


COMPONENTS = [
    Component("exhaustive_small", check, enumerate=enum_small,
              rule="all sequences of <=4 (quick) / <=5 (thorough) points of a 3x3 (2-D) and 2x2x2 (3-D) "
                   "half-integer lattice, with repetition, x 8 exact cones incl. K>m"),
    Component("random", check, strategy=lambda: st_case(60), quick=2500, thorough=60000, fuzz_runs=1500,
              rule="random cones (bundled / dyadic / unit-normal K>=m), 1..60 lattice points: ties, chains, duplicates"),
    Component("random_large", check, strategy=lambda: st_case(300), quick=150, thorough=4000,
              rule="as random, up to 300 points"),
]
