"""C03 - a design enters P exactly when no active region can still eps-cover it; useful set; Auer hold-back."""
from __future__ import annotations

from hypothesis import strategies as st

from vverif.core import Component
from vverif.props import C02

RULE = ("as C02 (every step of generated runs + directly injected single steps), comparing the designs that entered P, the monotonicity of P and "
        "the useful set U after the step with the reference transition on the displayed regions; Auer with heteroscedastic per-design widths "
        "(stub variances with ratios up to 100, real problems with per-design noise), ellipsoidal PaVeBa types with K != m facets. non-trivial = "
        "step with a P-entry while another candidate stays, or a change of U, or (Auer) a discard preceding a P-decision")
ASSUMPTIONS = C02.ASSUMPTIONS + ["a step whose discard part already disagrees is left to C02 (the P comparison would be confounded)"]


@st.composite
def st_auer_het(draw):
    spec = draw(C02.st_run(["Auer"]))
    spec["empirical"] = True
    return spec


@st.composite
def st_auer_widths(draw):
    """Auer, empirical widths: one clearly dominated design (so that a discard precedes the P-decisions of the same round)
    and the others within a few widths of each other, per-design variances with ratios up to 100."""
    import math

    from vverif import gen_runs
    from vverif.harness import data as hdata

    K = draw(st.integers(3, 7))
    m = draw(st.sampled_from([2, 2, 3]))
    eps = draw(st.sampled_from([0.05, 0.2, 0.5]))
    delta = 0.1
    t = draw(st.integers(1, 6))
    t1 = math.log(K * m * t / delta)
    base_w = math.sqrt(2 * t1 * (1 + math.sqrt(4 * t1 / t)) / t)
    kappa = draw(st.sampled_from([0.3, 1.0, 3.0]))
    contraction = base_w / (eps * kappa)
    w = eps * kappa
    top = [draw(st.floats(-0.2, 0.2)) for _ in range(m)]
    Y = []
    n_dom = draw(st.integers(1, 2))
    for i in range(K):
        if i < n_dom:
            Y.append([x - w * draw(st.sampled_from([8.0, 15.0, 40.0])) for x in top])
        else:
            Y.append([x + w * draw(st.floats(-3, 3)) for x in top])
    order = draw(st.permutations(list(range(K))))
    Y = [Y[i] for i in order]
    stub = draw(gen_runs.st_stub(m))
    stub["var_ratio"] = [draw(st.sampled_from([1.0, 1.0, 4.0, 25.0, 100.0])) for _ in range(K)]
    spec = {"algo": "Auer", "cone": {"kind": "comp", "m": m}, "eps": eps, "delta": delta, "noise_var": 0.01, "contraction": contraction,
            "X": hdata.grid_inputs(K, 2).tolist(), "Y": Y, "seed": 0, "source": "stub", "stub": stub, "empirical": True}
    return {"spec": spec, "regions": [None] * K, "S": [t - 1] + list(range(K)), "P": [], "U": []}


COMPONENTS = [
    Component("run_steps", lambda s: C02.check_run(s, "pareto"), strategy=C02.st_run, quick=240, thorough=8000,
              rule="whole runs of the six dataset-based eliminating algorithms"),
    Component("run_steps_auer_empirical", lambda s: C02.check_run(s, "pareto"), strategy=st_auer_het, quick=200, thorough=6000,
              rule="Auer with empirical per-design widths: stub variances (ratio <= 100) or heteroscedastic real problems"),
    Component("single_step_injected", lambda c: C02.check_single_step(c, "pareto"), strategy=lambda: C02.st_single(C02.ELIM), quick=400, thorough=12000,
              rule="regions and S/P/U injected directly (Auer: modeling() on a stub posterior with unequal variances)"),
    Component("useful_set_rebuilt_from_all_of_P", lambda c: C02.check_single_step(c, "pareto"),
              strategy=lambda: C02.st_single(["PaVeBa", "PaVeBaGP", "PaVeBaPartialGP"], close=True), quick=250, thorough=8000,
              rule="PaVeBa family: 3..6 regions within 0.1..0.5 eps of each other, S and P a partition, injected useful set empty or one member of P"),
    Component("auer_single_round_unequal_widths", lambda c: C02.check_single_step(c, "pareto"), strategy=st_auer_widths, quick=600, thorough=20000,
              rule="Auer modeling()/discarding()/pareto_updating() on a stub posterior: 1-2 clearly dominated designs plus 2..5 designs within +-3 widths, "
                   "variance ratios up to 100, round 1..6"),
    Component("single_step_injected_vogp_ad", lambda c: C02.check_single_step(c, "pareto"), strategy=C02.st_single_ad, quick=150, thorough=5000,
              rule="VOGP_AD: injected leaves / regions / S / P; covering only when every candidate is at the maximum depth"),
    Component("run_steps_vogp_ad", lambda s: C02.check_run(s, "pareto"), strategy=C02._ad_strategy, quick=16, thorough=400,
              rule="VOGP_AD: P-entries only once every candidate is at the maximum depth"),
]
