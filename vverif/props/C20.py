"""C20 - problems return the nearest design's value plus configured noise; data scaled."""
from __future__ import annotations

import math

import numpy as np
from hypothesis import strategies as st
from scipy import stats as sstats

from vverif import gen
from vverif.core import Component, Result
from vverif.harness import data as hdata

RULE = ("cases: (synthetic dataset, query batch on/off grid) vs brute-force nearest row; decoupled index forms vs the wrapped "
        "problem under the same seed; noise law of 20000 draws vs Sigma = L L^T (7-sigma moment bounds + KS at 1e-9); bundled "
        "datasets exhaustively; normalise/unnormalise round trip; continuous problems incl. zero coordinates. non-trivial = "
        "off-grid query / correlated factor with |rho|>=0.5 / list-form evaluation index / input with a zero coordinate")
ASSUMPTIONS = ["queries whose two nearest designs are within 1e-9 (squared distance) are skipped",
               "statistical oracles tuned to a false-alarm probability < 1e-8 per case",
               "the Cholesky convention is the library's own: np.linalg.cholesky (lower), Sigma = L L^T"]


def _nearest(Q, X):
    d2 = ((Q[:, None, :] - X[None, :, :]) ** 2).sum(-1)
    idx = d2.argmin(1)
    srt = np.sort(d2, axis=1)
    gap = srt[:, 1] - srt[:, 0] if X.shape[0] > 1 else np.full(len(Q), np.inf)
    return idx, gap


def check_eval(case):
    from vopy.maximization_problem import DecoupledEvaluationProblem, ProblemFromDataset
    from vopy.utils import get_closest_indices_from_points, set_seed

    X = np.array(case["X"], float)
    Y = np.array(case["Y"], float)
    Q = np.array(case["Q"], float)
    ds = hdata.make_dataset_class(X, Y)()
    prob = ProblemFromDataset(ds, case["noise_var"])
    labels = [f"K={len(X)}", f"d={X.shape[1]}"]
    idx, gap = _nearest(Q, X)
    keep = gap > 1e-9
    if not keep.any():
        return Result.indet(labels + ["all-near-ties"])
    Qk = Q[keep]
    before = Qk.copy()
    out = prob.evaluate(Qk, noisy=False)
    if not np.array_equal(Qk, before):
        return Result.violation("C20:dataset:input-mutated", "evaluate modified the query array", labels)
    out = np.asarray(out)
    if out.shape != (len(Qk), Y.shape[1]):
        return Result.violation("C20:dataset:shape", f"{out.shape}", labels)
    if not np.array_equal(out, Y[idx[keep]]):
        r = int(np.argmax(np.abs(out - Y[idx[keep]]).max(axis=1)))
        return Result.violation("C20:dataset:not-nearest-row", f"query {Qk[r].tolist()} got {out[r].tolist()} expected row {idx[keep][r]} {Y[idx[keep][r]].tolist()}", labels)
    # single point given as a 1-D array
    one = prob.evaluate(Qk[0].copy(), noisy=False)
    if np.asarray(one).shape != (1, Y.shape[1]) or not np.array_equal(np.asarray(one)[0], Y[idx[keep][0]]):
        return Result.violation("C20:dataset:single-point", f"{np.asarray(one).tolist()}", labels)
    ci, cd = get_closest_indices_from_points(Qk, X, return_distances=True)
    if not np.array_equal(np.asarray(ci), idx[keep]):
        return Result.violation("C20:closest-indices", f"{np.asarray(ci).tolist()} vs {idx[keep].tolist()}", labels)
    dist = np.sqrt(((Qk - X[idx[keep]]) ** 2).sum(1))
    if not np.allclose(cd, dist, atol=1e-7):
        return Result.violation("C20:closest-distances", f"{np.asarray(cd).tolist()} vs {dist.tolist()}", labels)
    # decoupled evaluation = selected components of the wrapped evaluation (same seed, noisy)
    dec = DecoupledEvaluationProblem(prob)
    m = Y.shape[1]
    seed = case["seed"]
    set_seed(seed)
    full = prob.evaluate(Qk)
    nt = bool((np.abs(Qk - X[idx[keep]]).max(axis=1) > 1e-6).any())
    for form in case["forms"]:
        set_seed(seed)
        if form == "none":
            got, exp = dec.evaluate(Qk), full
        elif isinstance(form, int):
            j = form % m
            got, exp = dec.evaluate(Qk, j), full[:, j]
        else:
            lst = [int(j) % m for j in (form * len(Qk))[: len(Qk)]]
            got, exp = dec.evaluate(Qk, lst), full[np.arange(len(Qk)), lst]
            nt = True
            labels.append("index-list")
        if np.asarray(got).shape != np.asarray(exp).shape or not np.array_equal(got, exp):
            return Result.violation("C20:decoupled:selection", f"form={form} got {np.asarray(got).tolist()} expected {np.asarray(exp).tolist()}", labels)
    if not np.array_equal(Qk, before):
        return Result.violation("C20:dataset:input-mutated", "noisy/decoupled evaluate modified the query array", labels)
    if len(Qk) > 1:
        try:
            dec.evaluate(Qk, [0] * (len(Qk) + 1))
        except ValueError:
            pass
        else:
            return Result.violation("C20:decoupled:length-mismatch-accepted", "", labels)
    # noisy mean sanity with tiny noise: noisy - noiseless small
    return Result.ok(sorted(set(labels + (["off-grid"] if nt else []))), nt)


@st.composite
def st_eval(draw):
    d = draw(st.integers(1, 4))
    K = draw(st.integers(1, 12))
    m = draw(st.integers(1, 3))
    if draw(st.booleans()):
        X = hdata.grid_inputs(K, d).tolist()
    else:
        X = draw(st.lists(st.lists(st.integers(0, 16).map(lambda k: k / 16), min_size=d, max_size=d), min_size=K, max_size=K, unique_by=tuple))
    K = len(X)
    Y = [[draw(st.floats(-5, 5)) for _ in range(m)] for _ in range(K)]
    Q = []
    for _ in range(draw(st.integers(1, 8))):
        mode = draw(st.sampled_from(["on", "near", "free", "midpoint"] if K >= 2 else ["on", "near", "free"]))
        if mode == "midpoint":
            # just past the midpoint between two designs (offset 1e-3 .. 1e-7 of their distance): the nearer one must win,
            # whichever index it has
            i = draw(st.integers(0, K - 1))
            j = draw(st.integers(0, K - 2))
            j = j if j < i else j + 1
            t = draw(st.sampled_from([1, -1])) * draw(st.sampled_from([1e-3, 1e-5, 1e-6, 1e-7]))
            Q.append([(a + b) / 2 + t * (b - a) for a, b in zip(X[i], X[j])])
        elif mode == "on":
            Q.append(list(X[draw(st.integers(0, K - 1))]))
        elif mode == "near":
            b = X[draw(st.integers(0, K - 1))]
            Q.append([x + draw(st.floats(-0.05, 0.05)) for x in b])
        else:
            Q.append([draw(st.floats(-0.5, 1.5)) for _ in range(d)])
    forms = [draw(st.one_of(st.just("none"), st.integers(0, 2), st.lists(st.integers(0, 2), min_size=1, max_size=4))) for _ in range(3)]
    return {"X": X, "Y": Y, "Q": Q, "noise_var": draw(st.sampled_from([0.0001, 0.01, 1.0])), "seed": draw(st.integers(0, 2**31 - 1)), "forms": forms}


# ------------------------------------------------------------------ noise law
N_DRAWS = 20000


def _law(samples, mean, Sigma, labels, tag):
    """7-sigma moment bounds; KS of whitened marginals at p < 1e-9."""
    n, m = samples.shape
    dev = samples - mean
    sd = np.sqrt(np.diag(Sigma))
    rnd = 1e-15 * (1.0 + float(np.abs(mean).max()))  # rounding of mean + noise in float64
    if np.any(np.abs(dev.mean(0)) > 7 * sd / math.sqrt(n) + rnd):
        return Result.violation(f"C20:noise:{tag}:mean", f"mean dev {dev.mean(0).tolist()} sd {sd.tolist()}", labels)
    S = dev.T @ dev / n
    for i in range(m):
        for j in range(m):
            se = math.sqrt((Sigma[i, i] * Sigma[j, j] + Sigma[i, j] ** 2) / n)
            if abs(S[i, j] - Sigma[i, j]) > 7 * se + 4 * rnd * (sd[i] + sd[j]) + rnd * rnd:
                return Result.violation(f"C20:noise:{tag}:covariance", f"sample cov {S.tolist()} configured {Sigma.tolist()}", labels)
    Linv = np.linalg.inv(np.linalg.cholesky(Sigma))
    Z = dev @ Linv.T
    for j in range(m):
        p = sstats.kstest(Z[:, j], "norm").pvalue
        if p < 1e-9:
            return Result.violation(f"C20:noise:{tag}:not-gaussian", f"KS p={p} dim {j}", labels)
    return None


def check_noise(case):
    from vopy.maximization_problem import ContinuousProblem, ProblemFromDataset
    from vopy.utils import get_noisy_evaluations_chol, set_seed

    m = case["m"]
    A = np.array(case["A"], float).reshape(m, m)
    Sigma = A @ A.T + np.diag(case["diag"])
    L = np.linalg.cholesky(Sigma)
    corr = Sigma / np.sqrt(np.outer(np.diag(Sigma), np.diag(Sigma)))
    offd = np.abs(corr - np.eye(m)).max()
    asym = np.abs(L @ L.T - L.T @ L).max() / np.abs(Sigma).max()
    labels = [f"m={m}", "correlated" if offd >= 0.5 else "weakly-correlated" if offd > 1e-9 else "diagonal"]
    mu = np.array(case["mu"], float)
    set_seed(case["seed"])
    means = np.tile(mu, (N_DRAWS, 1))
    before = means.copy()
    Lb = L.copy()
    s = get_noisy_evaluations_chol(means, L)
    if not np.array_equal(means, before) or not np.array_equal(L, Lb):
        return Result.violation("C20:noise:input-mutated", "", labels)
    if np.asarray(s).shape != (N_DRAWS, m):
        return Result.violation("C20:noise:shape", f"{np.asarray(s).shape}", labels)
    r = _law(np.asarray(s), mu, Sigma, labels, "chol")
    if r is not None:
        return r
    # through the problem classes: diagonal noise of variance v; and a correlated factor assigned to the public attribute
    v = case["noise_var"]
    ds = hdata.make_dataset_class(np.array([[0.0], [1.0]]), np.array([mu, mu + 1.0]))()
    prob = ProblemFromDataset(ds, v)
    set_seed(case["seed"] + 1)
    y = prob.evaluate(np.zeros((N_DRAWS, 1)))
    r = _law(np.asarray(y), mu, np.eye(m) * v, labels, "dataset-problem")
    if r is not None:
        return r
    prob.noise_cholesky = L
    set_seed(case["seed"] + 2)
    y = prob.evaluate(np.ones((N_DRAWS, 1)))
    r = _law(np.asarray(y), mu + 1.0, Sigma, labels, "dataset-problem-correlated")
    if r is not None:
        return r

    class Lin(ContinuousProblem):
        in_dim = 1
        out_dim = m
        bounds = [(0.0, 1.0)]

        def evaluate_true(self, x):
            return x[:, :1] * np.ones((1, m)) + mu

    cp = Lin(v)
    set_seed(case["seed"] + 3)
    y = cp.evaluate(np.full((N_DRAWS, 1), 0.5))
    r = _law(np.asarray(y), mu + 0.5, np.eye(m) * v, labels, "continuous-problem")
    if r is not None:
        return r
    return Result.ok(labels + (["LLt!=LtL"] if asym > 0.2 else []), bool(offd >= 0.5 and asym > 0.05))


@st.composite
def st_noise(draw):
    m = draw(st.integers(2, 3))
    kind = draw(st.sampled_from(["corr", "corr", "corr", "diag"]))
    if kind == "diag":
        A = [0.0] * (m * m)
        diag = [draw(gen.st_logfloat(1e-3, 10)) for _ in range(m)]
    else:
        A = [draw(st.floats(-2, 2)) for _ in range(m * m)]
        diag = [draw(gen.st_logfloat(1e-3, 1)) for _ in range(m)]
    return {"m": m, "A": A, "diag": diag, "mu": [draw(st.floats(-3, 3)) for _ in range(m)],
            "noise_var": draw(st.one_of(gen.st_logfloat(1e-3, 10), gen.st_logfloat(1e-12, 1e4))), "seed": draw(st.integers(0, 2**31 - 10))}


# ------------------------------------------------------------------ bundled datasets, normalisation, continuous
def enum_bundled(tier):
    for name in ["Test", "SNW", "DiskBrake", "VehicleSafety"]:
        yield {"name": name}


DECLARED = {"Test": (4, 2, 32), "SNW": (3, 2, 206), "DiskBrake": (4, 2, 128), "VehicleSafety": (5, 3, 500)}


def check_bundled(case):
    from vopy.datasets import get_dataset_instance
    from vopy.maximization_problem import ProblemFromDataset

    name = case["name"]
    ds = get_dataset_instance(name)
    labels = [name]
    din, dout, K = DECLARED[name]
    X, Y = np.asarray(ds.in_data), np.asarray(ds.out_data)
    if X.shape != (K, din) or Y.shape != (K, dout) or ds.in_dim != din or ds.out_dim != dout or ds._cardinality != K \
            or ds._in_dim != din or ds._out_dim != dout:
        return Result.violation("C20:bundled:sizes", f"{name} X{X.shape} Y{Y.shape}", labels)
    if np.abs(X.min(0)).max() > 1e-12 or np.abs(X.max(0) - 1).max() > 1e-12:
        return Result.violation("C20:bundled:input-scaling", f"{name} min {X.min(0)} max {X.max(0)}", labels)
    if np.abs(Y.mean(0)).max() > 1e-9 or np.abs(Y.std(0) - 1).max() > 1e-9:
        return Result.violation("C20:bundled:output-standardisation", f"{name} mean {Y.mean(0)} std {Y.std(0)}", labels)
    prob = ProblemFromDataset(ds, 0.01)
    idx, gap = _nearest(X, X)
    out = prob.evaluate(X.copy(), noisy=False)
    bad = [i for i in range(K) if not np.array_equal(out[i], Y[i]) and not (np.abs(X - X[i]).max(1) < 1e-12).sum() > 1]
    if bad:
        return Result.violation("C20:bundled:own-row", f"{name} designs {bad[:5]}", labels)
    return Result.ok(labels, True)


def check_norm(case):
    from vopy.utils import normalize, unnormalize

    data = np.array(case["data"], float)
    bounds = [tuple(b) for b in case["bounds"]]
    labels = [f"cols={data.shape[1]}"]
    before = data.copy()
    nd = normalize(data, bounds)
    back = unnormalize(nd, bounds)
    if not np.array_equal(data, before):
        return Result.violation("C20:normalize:input-mutated", "", labels)
    lo = np.array([b[0] for b in bounds])
    hi = np.array([b[1] for b in bounds])
    tol = 1e-12 * np.maximum(1.0, np.maximum(np.abs(lo), np.abs(hi)) / (hi - lo)) * np.maximum(np.abs(data).max(), np.abs(hi - lo))
    if np.asarray(nd).shape != data.shape or np.any(np.abs(back - data) > tol * 8 + 1e-300):
        return Result.violation("C20:normalize:not-inverse", f"data {data.tolist()} bounds {bounds} back {np.asarray(back).tolist()}", labels)
    exp = (data - lo) / (hi - lo)
    if np.any(np.abs(nd - exp) > 1e-12 * np.maximum(1, np.abs(exp))):
        return Result.violation("C20:normalize:value", f"{np.asarray(nd).tolist()} vs {exp.tolist()}", labels)
    fwd = normalize(unnormalize(data, bounds), bounds)
    tol2 = 1e-12 * np.maximum(1.0, np.maximum(np.abs(lo), np.abs(hi)) / (hi - lo)) * np.maximum(1.0, np.abs(data).max())
    if np.any(np.abs(fwd - data) > 8 * tol2):
        return Result.violation("C20:normalize:not-inverse", f"normalize(unnormalize) data {data.tolist()} bounds {bounds}", labels)
    for bad in (bounds[:-1], bounds + [(0.0, 1.0)]):
        try:
            normalize(data, bad)
        except ValueError:
            continue
        return Result.violation("C20:normalize:bounds-length-accepted", "", labels)
    return Result.ok(labels, data.shape[0] > 1)


@st.composite
def st_norm(draw):
    c = draw(st.integers(1, 4))
    bounds = []
    for _ in range(c):
        lo = draw(st.floats(-100, 100))
        w = draw(gen.st_logfloat(1e-3, 1e3))
        bounds.append([lo, lo + w])
    n = draw(st.integers(1, 6))
    data = [[draw(st.floats(-2, 3)) * (b[1] - b[0]) + b[0] if draw(st.booleans()) else draw(st.floats(0, 1)) for b in bounds] for _ in range(n)]
    return {"data": data, "bounds": bounds}


def check_continuous(case):
    from vopy.maximization_problem import DecoupledEvaluationProblem, get_continuous_problem
    from vopy.utils import set_seed

    X = np.array(case["X"], float)
    prob = get_continuous_problem("BraninCurrin", case["noise_var"])
    labels = ["BraninCurrin"]
    has_zero = bool((X == 0).any())
    if has_zero:
        labels.append("zero-coordinate")
    before = X.copy()
    f1 = prob.evaluate(X, noisy=False)
    if not np.array_equal(X, before):
        r, c = np.argwhere(X != before)[0]
        return Result.violation("C20:continuous:input-mutated", f"x[{r},{c}] {before[r, c]!r} -> {X[r, c]!r} after evaluate(noisy=False)", labels)
    f2 = prob.evaluate(X, noisy=False)
    if np.asarray(f1).shape != (len(X), 2) or not np.array_equal(f1, f2) or not np.isfinite(f1).all():
        return Result.violation("C20:continuous:nondeterministic-or-shape", f"{np.asarray(f1).tolist()}", labels)
    set_seed(case["seed"])
    y = prob.evaluate(X)
    if not np.array_equal(X, before):
        return Result.violation("C20:continuous:input-mutated", "noisy evaluate", labels)
    dec = DecoupledEvaluationProblem(prob)
    set_seed(case["seed"])
    y0 = dec.evaluate(X, 1)
    if not np.array_equal(y0, y[:, 1]) or not np.array_equal(X, before):
        return Result.violation("C20:decoupled:selection", "continuous problem index 1", labels)
    set_seed(case["seed"])
    yn = dec.evaluate(X, None, noisy=False)
    if not np.array_equal(yn, f1):
        return Result.violation("C20:decoupled:kwargs", "noisy=False not forwarded", labels)
    one = prob.evaluate(X[0].copy(), noisy=False)
    if np.asarray(one).shape != (1, 2) or not np.array_equal(np.asarray(one)[0], f1[0]):
        return Result.violation("C20:continuous:single-point", "", labels)
    return Result.ok(labels, has_zero)


@st.composite
def st_cont(draw):
    n = draw(st.integers(1, 6))
    co = st.one_of(st.floats(0, 1), st.sampled_from([0.0, 1.0, 0.5]))
    return {"X": [[draw(co), draw(co)] for _ in range(n)], "noise_var": draw(st.sampled_from([0.01, 1.0])),
            "seed": draw(st.integers(0, 2**31 - 1))}


COMPONENTS = [
    Component("dataset_and_decoupled", check_eval, strategy=st_eval, quick=1500, thorough=40000,
              rule="1..12 designs, d=1..4, queries on grid / within 0.05 / anywhere in [-0.5,1.5]^d; index forms None/int/list"),
    Component("noise_law", check_noise, strategy=st_noise, quick=96, thorough=2000,
              rule="m=2..3, Sigma = A A^T + D with random A (3/4) or diagonal; problem-level noise variance 1e-12..1e4 (half within 1e-3..10); 4 routes x 20000 draws each"),
    Component("bundled_datasets", check_bundled, enumerate=enum_bundled, rule="the 4 bundled datasets, every design queried"),
    Component("normalise_roundtrip", check_norm, strategy=st_norm, quick=800, thorough=20000, rule="1..4 columns, widths 1e-3..1e3"),
    Component("continuous_problem", check_continuous, strategy=st_cont, quick=600, thorough=15000,
              rule="BraninCurrin batches with coordinates in [0,1] incl. exact 0 / 1"),
]
