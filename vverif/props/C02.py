"""C02 - a design is eliminated only on, and always on, a confidence-region certificate.
(Shared step-comparison machinery for C02 and C03 lives here.)"""
from __future__ import annotations

import numpy as np
from hypothesis import strategies as st

from vverif import gen, gen_runs
from vverif import gen_regions as gr
from vverif.core import Component, Result
from vverif.harness import algos as ha
from vverif.harness import reference as ref
from vverif.oracles import geom

RULE = ("every step of generated runs of the seven eliminating algorithms (stub / real-model posteriors) plus directly injected single-step "
        "configurations (S/P/U compositions and region layouts incl. identical, touching and single-design cases): the set that left S without "
        "entering P is compared, in both directions, with the reference transition recomputed from the displayed regions by independent oracles "
        "(closed-form dominance, certified cover LP/dual, per-vertex pessimistic LP). non-trivial = step with >=1 discarded and >=1 surviving "
        "candidate, or a consulted certificate within 20% of its decision boundary")
ASSUMPTIONS = ["a step in which any consulted predicate lies in its numerical band is indeterminate and not compared",
               "VOGP-family on cones other than two-facet 2-D ones: the pessimistic set is taken from the code's own comparison (C11 vouches for it)"]

MAX_STEPS = 40


def algo_slack(spec, alg, W):
    """The eps-slack the algorithm's rule prescribes, recomputed independently of the instance's attributes."""
    algo, eps = spec["algo"], spec["eps"]
    nrm = np.linalg.norm(W, axis=1)
    Wn = W / nrm[:, None]
    if algo in ("PaVeBa", "PaVeBaGP", "PaVeBaPartialGP"):
        al, _, _ = geom.cone_alpha(Wn)
        return eps * al * nrm  # alpha of the cone matrix as given (rows need not be unit vectors)
    if algo in ("VOGP", "VOGP_AD"):
        z = geom.ldp_certified(Wn, np.ones(len(Wn)))
        return eps * z / np.linalg.norm(z)
    return np.full(W.shape[1], float(eps))  # eps-PAL: eps in every objective


def step_expectation(spec, alg, ctx, before, after_regions, covering_enabled=True, code_pdom=False):
    algo = spec["algo"]
    W = np.asarray(ctx.order.ordering_cone.W, float) if algo != "Auer" else np.eye(len(after_regions[0][0]))
    if algo == "Auer":
        return ref.ref_auer(sorted(before["S"]), before["P"], after_regions, spec["eps"]), None
    pr = ref.Preds(W, ctx.conf, after_regions)
    slack = algo_slack(spec, alg, W)
    if algo in ("PaVeBa", "PaVeBaGP", "PaVeBaPartialGP"):
        return ref.ref_paveba(before["S"], before["P"], before["U"], pr, slack), pr
    exact = (W.shape == (2, 2) or algo == "EpsilonPAL") and not code_pdom
    return ref.ref_vogp(before["S"], before["P"], pr, slack, order=ctx.order, exact_pdom=exact, covering_enabled=covering_enabled), pr


def compare_step(part, spec, exp, b, a, parents=frozenset(), children=frozenset()):
    """part: 'discard' (C02) or 'pareto' (C03).  Returns (violation_sig, detail) or None, plus an indeterminate flag."""
    algo = spec["algo"]
    S0, P0, S1, P1 = b["S"], b["P"], a["S"], a["P"]
    if part == "discard":
        if exp["D"] is None:
            return None, True
        got = (S0 - S1 - P1) - set(parents)
        if got != exp["D"]:
            extra, missing = sorted(got - exp["D"]), sorted(exp["D"] - got)
            kind = "discarded-without-certificate" if extra else "certified-design-kept"
            return (f"C02:{algo}:{ha.conf_type(spec)}:{kind}",
                    f"S={sorted(S0)} P={sorted(P0)} U={sorted(b['U']) if b['U'] is not None else None}: left S without entering P: {sorted(got)}; "
                    f"reference (certificates on the displayed regions): {sorted(exp['D'])}"), False
        return None, False
    # pareto / useful part
    if not P0 - set(parents) <= P1:
        return (f"C03:{algo}:member-left-P", f"P {sorted(P0)} -> {sorted(P1)}"), False
    if exp["D"] is None or exp["N"] is None:
        return None, True
    got_D = (S0 - S1 - P1) - set(parents)
    if got_D != exp["D"]:
        return None, True  # C02's business; the P comparison below would be confounded
    got = (P1 - P0) - set(children)
    if got != exp["N"]:
        extra, missing = sorted(got - exp["N"]), sorted(exp["N"] - got)
        kind = "entered-P-while-coverable" if extra else "uncoverable-design-kept-in-S"
        return (f"C03:{algo}:{ha.conf_type(spec)}:{kind}",
                f"S={sorted(S0)} P={sorted(P0)}: entered P {sorted(got)}; reference {sorted(exp['N'])}"), False
    if b["U"] is not None:
        if exp["U"] is None:
            return None, True
        if a["U"] != exp["U"]:
            return (f"C03:{algo}:{ha.conf_type(spec)}:useful-set", f"U={sorted(a['U'])}; reference {sorted(exp['U'])} (P={sorted(P1)}, S={sorted(S1)})"), False
    return None, False


def check_run(spec, part="discard"):
    algo = spec["algo"]
    labels = ["algo=" + algo, "source=" + spec.get("source", "real"), "conf=" + ha.conf_type(spec)] + (["far-from-origin"] if spec.get("y_offset") else []) + (["small-scale"] if spec.get("unit") else [])
    alg, ctx = ha.build(spec)
    steps = 0
    nt = False
    n_cmp = n_ind = 0
    covering = False
    while steps < MAX_STEPS:
        b = ha.snapshot(alg, ctx)
        nref = len(getattr(ctx, "refines", []))
        flag = alg.run_one_step()
        a = ha.snapshot(alg, ctx)
        steps += 1
        new_ref = getattr(ctx, "refines", [])[nref:]
        parents = {p for (p, _, _) in new_ref}
        children = {c for (_, ch, _) in new_ref for c in ch}
        regs = a["regions"][: b["n_points"]]
        cov_enabled = True
        if algo == "VOGP_AD":
            # the latch: covering starts once every remaining candidate is at the maximum depth
            cov_enabled = None
        exp, pr = step_expectation(spec, alg, ctx, b, regs, covering_enabled=True)
        if algo == "VOGP_AD" and exp["D"] is not None:
            S1ref = b["S"] - exp["D"]
            depths = alg.design_space.point_depths
            if not covering:
                covering = all(depths[i] == alg.max_discretization_depth for i in S1ref)
            if not covering:
                exp = dict(exp, N=set())
        res, indet = compare_step(part, spec, exp, b, a, parents, children)
        if res is not None:
            return Result.violation(res[0], res[1] + f" [step {steps}, round {a['round']}]", labels)
        if indet:
            n_ind += 1
        else:
            n_cmp += 1
            D = exp["D"] or set()
            N = exp.get("N") or set()
            near = pr is not None and pr.min_abs_margin <= 0.2
            if part == "discard":
                nt |= (len(D) >= 1 and len(b["S"] - D) >= 1) or near
            else:
                nt |= (len(N) >= 1 and len(b["S"] - D - N) >= 1) or (b["U"] is not None and a["U"] != b["U"]) or (
                    algo == "Auer" and len(D) >= 1 and len(b["S"] - D) >= 2)
        if flag:
            break
    labels.append(f"compared-steps={'0' if n_cmp == 0 else '1-3' if n_cmp <= 3 else '>3'}")
    if n_ind:
        labels.append("had-indeterminate-step")
    if n_cmp == 0:
        return Result.indet(labels)
    return Result.ok(labels, nt)


# ------------------------------------------------------------------ directly injected single steps
def _inject(alg, ctx, spec, case):
    from vopy.confidence_region import EllipsoidalConfidenceRegion, RectangularConfidenceRegion

    regs = case["regions"]
    K = len(regs)
    m = len(spec["Y"][0])
    if spec["algo"] == "Auer":
        # Auer derives widths itself: set the active set and the round, let modeling() display the regions
        # (stub posterior: generated centres, per-design variances with ratios up to 100)
        S = set(i % K for i in case["S"])
        alg.S, alg.P = set(S), set(i % K for i in case["P"]) - S
        alg.round = 1 + case["S"][0] % 7
        alg.model.n_updates = alg.round
        alg.modeling()
        return
    for i in range(K):
        r = regs[i]
        if ctx.conf == "rect":
            alg.design_space.confidence_regions[i] = RectangularConfidenceRegion(m, np.array(r["lo"], float), np.array(r["hi"], float))
        else:
            alg.design_space.confidence_regions[i] = EllipsoidalConfidenceRegion(m, np.array(r["c"], float), np.array(r["S"], float), r["a"])
    S = set(i % K for i in case["S"])
    P = set(i % K for i in case["P"]) - S
    alg.S, alg.P = set(S), set(P)
    if hasattr(alg, "U"):
        alg.U = set(i % K for i in case["U"]) & P


def _inject_ad(alg, ctx, spec, case):
    """VOGP_AD: refine a few nodes, then place regions / S / P on the leaves."""
    from vopy.confidence_region import RectangularConfidenceRegion

    ds = alg.design_space
    md = spec["problem"]["depth_max"]
    m = spec["problem"]["m"]
    refined = set()
    for k in case["refine"]:
        cand = [i for i in range(len(ds.points)) if i not in refined and ds.point_depths[i] < md]
        if not cand:
            break
        parent = cand[k % len(cand)]
        ds.refine_design(parent)
        refined.add(parent)
    leaves = [i for i in range(len(ds.points)) if i not in refined]
    regs = case["regions"]
    for r, i in enumerate(leaves):
        spec_r = regs[r % len(regs)]
        ds.confidence_regions[i] = RectangularConfidenceRegion(m, np.array(spec_r["lo"], float), np.array(spec_r["hi"], float))
    S = {leaves[k % len(leaves)] for k in case["S"]}
    P = {leaves[k % len(leaves)] for k in case["P"]} - S
    P = {p for p in P if ds.point_depths[p] == md}  # only finest leaves can have been declared
    alg.S, alg.P = set(S), set(P)
    return all(ds.point_depths[i] == md for i in S)


def check_single_step(case, part="discard"):
    spec = case["spec"]
    algo = spec["algo"]
    labels = ["algo=" + algo, "conf=" + ha.conf_type(spec), "single-step"]
    alg, ctx = ha.build(spec)
    all_max = True
    if algo == "VOGP_AD":
        all_max = _inject_ad(alg, ctx, spec, case)
    else:
        _inject(alg, ctx, spec, case)
    b = ha.snapshot(alg, ctx)
    regs = b["regions"]
    # single steps include exact ties (identical regions): the pessimistic set is taken from the code's own
    # pairwise comparison there (exact for ties; C11 vouches for the comparison itself)
    exp, pr = step_expectation(spec, alg, ctx, b, regs, code_pdom=algo in ("VOGP", "VOGP_AD", "EpsilonPAL"))
    alg.discarding()
    if algo == "VOGP_AD":
        if exp["D"] is not None and not all(alg.design_space.point_depths[i] == alg.max_discretization_depth for i in (b["S"] - exp["D"])):
            exp = dict(exp, N=set())
        alg.epsiloncovering()
    elif algo in ("VOGP", "EpsilonPAL"):
        alg.epsiloncovering()
    else:
        alg.pareto_updating()
    if hasattr(alg, "useful_updating"):
        alg.useful_updating()
    a = ha.snapshot(alg, ctx)
    res, indet = compare_step(part, spec, exp, b, a)
    if res is not None:
        return Result.violation(res[0] + ":single-step", res[1] + f" regions={case['regions']}", labels)
    if indet:
        return Result.indet(labels + ["band"])
    D = exp["D"] or set()
    N = exp.get("N") or set()
    if part == "discard":
        nt = (len(D) >= 1 and len(b["S"] - D) >= 1) or (pr is not None and pr.min_abs_margin <= 0.2)
    else:
        nt = (len(N) >= 1 and len(b["S"] - D - N) >= 1) or (b["U"] is not None and len(a["U"]) > 0) or (algo == "Auer" and len(D) >= 1 and len(N) >= 1)
    if len(b["S"]) == 1:
        labels.append("single-design-active-set")
    if D:
        labels.append("some-discarded")
    if N:
        labels.append("some-entered-P")
    return Result.ok(labels, bool(nt))


@st.composite
def st_single(draw, algos, close=False):
    """close=True: regions within a fraction of eps of each other (nothing is discarded, everything can be covered), at least
    one member of P and a useful set that leaves members of P out - the state in which the useful set has to be rebuilt
    from all of P."""
    algo = draw(st.sampled_from(algos))
    K = draw(st.integers(3, 6)) if close else draw(st.integers(1, 6))
    spec = draw(gen_runs.st_run_spec(algo, source="stub" if algo not in () else None, K=K, allow_Kgtm=True))
    if algo == "Auer":
        spec["empirical"] = True
    spec["source"] = "stub"
    if "stub" not in spec:
        spec["stub"] = draw(gen_runs.st_stub(len(spec["Y"][0])))
    conf = ha.conf_type(spec)
    m = len(spec["Y"][0])
    eps = spec["eps"]
    W = gen_runs.cone_matrix(spec["cone"]) if algo not in ("EpsilonPAL", "Auer") else np.eye(m)
    u = gr.interior_dir(W)
    regs = []
    scale = eps * draw(st.sampled_from([0.3, 1.0, 3.0]))
    for i in range(K):
        mode = draw(st.sampled_from(["copy", "along-cone", "along-cone", "touch"] if close else ["free", "free", "copy", "along-cone", "touch"])) if regs else "free"
        if conf == "rect":
            if mode == "free":
                r = draw(gr.st_rect(m, scale))
            else:
                base = regs[draw(st.integers(0, len(regs) - 1))]
                lo, hi = np.array(base["lo"]), np.array(base["hi"])
                if mode == "copy":
                    sh = np.zeros(m)
                elif mode == "along-cone":
                    sh = u * draw(st.sampled_from([-1, 1])) * eps * draw(st.sampled_from([0.1, 0.3, 0.5] if close else [0.5, 0.99, 1.01, 2.0, 5.0]))
                else:
                    sh = np.zeros(m)
                    k = draw(st.integers(0, m - 1))
                    sh[k] = (hi[k] - lo[k]) * draw(st.sampled_from([-1, 1]))
                r = {"lo": (lo + sh).tolist(), "hi": (hi + sh).tolist()}
        else:
            if mode == "free":
                r = draw(gr.st_ell(m, scale))
            else:
                base = regs[draw(st.integers(0, len(regs) - 1))]
                c = np.array(base["c"])
                sh = np.zeros(m) if mode == "copy" else u * draw(st.sampled_from([-1, 1])) * eps * draw(
                    st.sampled_from([0.1, 0.3, 0.5] if close else [0.5, 0.99, 1.01, 2.0, 5.0]))
                r = dict(base, c=(c + sh).tolist())
        regs.append(r)
    ints = st.integers(0, 5)
    if close:
        order = draw(st.permutations(list(range(K))))
        nS = draw(st.integers(1, K - 1))
        return {"spec": spec, "regions": regs, "S": list(order[:nS]), "P": list(order[nS:]), "U": draw(st.lists(st.sampled_from(list(order[nS:])), max_size=1))}
    return {"spec": spec, "regions": regs, "S": draw(st.lists(ints, min_size=1, max_size=6)), "P": draw(st.lists(ints, max_size=4)),
            "U": draw(st.lists(ints, max_size=4))}


@st.composite
def st_single_ad(draw):
    from vverif.props.C06 import st_spec_ad

    spec = draw(st_spec_ad().filter(lambda s: s["problem"]["d"] >= s["problem"]["m"]))
    spec["problem"]["depth_max"] = draw(st.sampled_from([2, 3]))
    m = spec["problem"]["m"]
    eps = spec["eps"]
    W = gen_runs.cone_matrix(spec["cone"])
    u = gr.interior_dir(W)
    regs = []
    scale = eps * draw(st.sampled_from([0.3, 1.0, 3.0]))
    for i in range(draw(st.integers(2, 8))):
        mode = draw(st.sampled_from(["free", "free", "copy", "copy", "along-cone", "same-lower"])) if regs else "free"
        if mode == "free":
            r = draw(gr.st_rect(m, scale))
        else:
            base = regs[draw(st.integers(0, len(regs) - 1))]
            lo, hi = np.array(base["lo"]), np.array(base["hi"])
            if mode == "copy":
                r = {"lo": lo.tolist(), "hi": hi.tolist()}
            elif mode == "along-cone":
                sh = u * draw(st.sampled_from([-1, 1])) * eps * draw(st.sampled_from([0.5, 0.99, 1.01, 2.0, 5.0]))
                r = {"lo": (lo + sh).tolist(), "hi": (hi + sh).tolist()}
            else:
                w = np.array([draw(st.floats(0.1, 2.0)) for _ in range(m)]) * scale
                r = {"lo": lo.tolist(), "hi": (lo + w).tolist()}
        regs.append(r)
    ints = st.integers(0, 30)
    return {"spec": spec, "refine": draw(st.lists(ints, min_size=1, max_size=3)), "regions": regs,
            "S": draw(st.lists(ints, min_size=1, max_size=6)), "P": draw(st.lists(ints, max_size=4)), "U": []}


ELIM = ["PaVeBa", "PaVeBaGP", "PaVeBaPartialGP", "VOGP", "EpsilonPAL", "Auer"]


@st.composite
def st_run(draw, algos=None):
    algo = draw(st.sampled_from(algos or ELIM))
    spec = draw(gen_runs.st_run_spec(algo, allow_Kgtm=True, batch_max=2))
    if algo == "Auer":
        spec["empirical"] = draw(st.booleans())
        if spec["source"] == "real" and draw(st.booleans()):
            spec["het_noise"] = [draw(st.sampled_from([0.001, 0.01, 0.1, 0.5])) for _ in range(len(spec["Y"]))]
    return spec


def _ad_strategy():
    from vverif.props.C06 import st_spec_ad

    return st_spec_ad().filter(lambda s: s["problem"]["d"] >= s["problem"]["m"])


COMPONENTS = [
    Component("run_steps", lambda s: check_run(s, "discard"), strategy=st_run, quick=240, thorough=8000,
              rule="whole runs (<=40 steps) of the six dataset-based eliminating algorithms, stub / real / fast posteriors"),
    Component("single_step_injected", lambda c: check_single_step(c, "discard"), strategy=lambda: st_single(ELIM), quick=400, thorough=12000,
              rule="regions and S/P/U injected directly: copies, shifts by 0.5..5 eps along the cone, touching, free"),
    Component("single_step_injected_vogp_ad", lambda c: check_single_step(c, "discard"), strategy=st_single_ad, quick=150, thorough=5000,
              rule="VOGP_AD: refined leaves with injected regions incl. identical ones (ties), S/P subsets, discarding() + epsiloncovering()"),
    Component("run_steps_vogp_ad", lambda s: check_run(s, "discard"), strategy=_ad_strategy, quick=16, thorough=400,
              rule="VOGP_AD runs on continuous problems (discards modulo refinement)"),
]
