"""C12 - cone orders are their cones' preorders; bundled cones have the stated geometry."""
from __future__ import annotations

import itertools
import math

import numpy as np
from hypothesis import strategies as st

from vverif import gen
from vverif.core import Component, Result
from vverif.oracles import geom

RULE = ("laws: (cone, 5 lattice vectors, translation, scale) -> dominates()/is_inside() vs exact rational "
        "W(a-b)>=0 plus reflexive/transitive/translation/scaling/antisymmetry/batched laws; geometry: angle sweeps of "
        "bundled cones vs closed forms. non-trivial = at least one dominated and one non-dominated ordered pair among "
        "distinct vectors, or a boundary pair (some facet exactly 0); geometry: direction within 5 deg of a facet")
ASSUMPTIONS = ["cones pointed and solid", "dyadic inputs so that float evaluation of W(a-b) is exact"]


def _bool(x):
    x = np.asarray(x)
    if x.size != 1:
        raise ValueError(f"expected single truth value, got shape {x.shape}")
    return bool(x.reshape(-1)[0])


def check_laws(case):
    spec = case["cone"]
    order = gen.make_order(spec)
    cone = order.ordering_cone
    W = cone.W
    Wf = geom.frac_matrix(W)
    V = [np.array(v, float) for v in case["vecs"]]
    t = np.array(case["shift"], float)
    s = float(case["scale"])
    labels = list(gen.cone_labels(spec))
    n = len(V)
    exp = np.zeros((n, n), bool)
    got = np.zeros((n, n), bool)
    boundary = False
    for i, j in itertools.product(range(n), repeat=2):
        d = V[i] - V[j]
        fac = geom.exact_facets(Wf, d)
        exp[i, j] = all(f >= 0 for f in fac)
        boundary |= bool(np.any(d != 0)) and any(f == 0 for f in fac) and exp[i, j]
        got[i, j] = _bool(order.dominates(V[i], V[j]))
        if got[i, j] != exp[i, j]:
            return Result.violation("C12:dominates!=facet-inequalities",
                                    f"dominates({V[i].tolist()},{V[j].tolist()})={got[i, j]} exact={exp[i, j]} W={W.tolist()}", labels)
        # is_inside on the difference, list input and array input
        if _bool(cone.is_inside(d)) != exp[i, j] or _bool(cone.is_inside(d.tolist())) != exp[i, j]:
            return Result.violation("C12:is_inside!=facet-inequalities", f"d={d.tolist()} W={W.tolist()}", labels)
        # translation and positive scaling invariance (exact for dyadic data)
        if _bool(order.dominates(V[i] + t, V[j] + t)) != got[i, j]:
            return Result.violation("C12:translation", f"a={V[i].tolist()} b={V[j].tolist()} t={t.tolist()}", labels)
        if _bool(order.dominates(s * V[i], s * V[j])) != got[i, j]:
            return Result.violation("C12:scaling", f"a={V[i].tolist()} b={V[j].tolist()} s={s}", labels)
    for i in range(n):
        if not got[i, i]:
            return Result.violation("C12:reflexive", f"a={V[i].tolist()}", labels)
    for i, j, k in itertools.product(range(n), repeat=3):
        if got[i, j] and got[j, k] and not got[i, k]:
            return Result.violation("C12:transitive", f"{V[i].tolist()} {V[j].tolist()} {V[k].tolist()}", labels)
    for i, j in itertools.combinations(range(n), 2):
        if got[i, j] and got[j, i] and np.any(V[i] != V[j]):
            return Result.violation("C12:antisymmetric", f"{V[i].tolist()} {V[j].tolist()} W={W.tolist()}", labels)
    # batched call = row-wise single calls
    A = np.array(V)
    for j in range(n):
        b = np.asarray(order.dominates(A, V[j]))
        if b.shape != (n,) or not np.array_equal(b.astype(bool), exp[:, j]):
            return Result.violation("C12:batched", f"dominates(A,{V[j].tolist()})={b.tolist()} expected {exp[:, j].tolist()}", labels)
    # every batch size 1..n (in particular a batch of exactly dim vectors, which is a square array), both argument forms
    for k in range(1, n + 1):
        bi = np.asarray(cone.is_inside(A[:k] - V[0]))
        if bi.shape != (k,) or not np.array_equal(bi.astype(bool), exp[:k, 0]):
            return Result.violation("C12:batched", f"is_inside of a batch of {k} vectors (dim {len(V[0])}): {bi.tolist()} expected {exp[:k, 0].tolist()}", labels)
        bb = np.asarray(order.dominates(A[:k], np.tile(V[n - 1], (k, 1))))
        if bb.shape != (k,) or not np.array_equal(bb.astype(bool), exp[:k, n - 1]):
            return Result.violation("C12:batched", f"dominates(batch of {k}, batch of {k}) (dim {len(V[0])}): {bb.tolist()} expected {exp[:k, n - 1].tolist()}", labels)
    # all-pairs form with two leading batch axes (broadcasting): if the call is accepted at all, it must give the relation
    try:
        BB = np.asarray(order.dominates(A[:, None, :], A[None, :, :]))
    except Exception:  # noqa: BLE001 - a routine that rejects stacked batches does not contradict the property
        labels.append("stacked-batch-rejected")
        BB = None
    if BB is not None and (BB.shape != (n, n) or not np.array_equal(BB.astype(bool), exp)):
        return Result.violation("C12:batched", f"dominates(A[:,None,:], A[None,:,:]) shape {BB.shape} (expected {(n, n)}) "
                                f"values {BB.astype(bool).tolist() if BB.ndim <= 2 else '...'} expected {exp.tolist()}", labels)
    off = ~np.eye(n, dtype=bool)
    distinct = np.array([[np.any(V[i] != V[j]) for j in range(n)] for i in range(n)])
    nt = bool((exp & off & distinct).any() and (~exp & off).any()) or boundary
    if boundary:
        labels.append("boundary-pair")
    return Result.ok(labels, nt)


@st.composite
def st_laws(draw):
    spec = draw(st.one_of(gen.st_dyadic_cone(), gen.st_dyadic_cone(), gen.st_int_cone(), gen.st_skew_cone(),
                          st.sampled_from([{"kind": "comp", "m": 2}, {"kind": "comp", "m": 3}, {"kind": "comp", "m": 4},
                                           {"kind": "c3d", "type": "right"}])))
    m = gen.spec_dim(spec)
    vec = st.lists(gen.st_dyadic(-8, 8, 4), min_size=m, max_size=m)
    base = draw(vec)
    vecs = [base]
    W = gen.cone_W(spec) if spec["kind"] == "W" else np.eye(m)
    for _ in range(4):
        mode = draw(st.sampled_from(["free", "free", "near", "in-cone", "edge"]))
        if mode == "free":
            vecs.append(draw(vec))
        elif mode == "near":
            ref = vecs[draw(st.integers(0, len(vecs) - 1))]
            vecs.append([r + draw(st.integers(-2, 2)) / 4 for r in ref])
        else:
            # move from a previous vector along a direction built from the cone: solve W d = rhs on m rows
            ref = np.array(vecs[draw(st.integers(0, len(vecs) - 1))])
            rhs = np.array([draw(st.integers(0, 3)) if mode == "in-cone" else draw(st.sampled_from([0, 0, 1])) for _ in range(m)], float)
            try:
                d = np.linalg.solve(W[:m], rhs)
            except np.linalg.LinAlgError:
                d = np.zeros(m)
            d = np.round(d * 16) / 16  # keep dyadic (may leave the cone slightly: still a valid test vector)
            sgn = draw(st.sampled_from([1, -1]))
            vecs.append((ref + sgn * d).tolist())
    big = draw(st.sampled_from([1, 1, 1, 2 ** 10, 2 ** 17, 2 ** 21]))  # translations far from the origin stay exact
    shift = [x * big for x in draw(vec)]
    scale = draw(st.sampled_from([0.25, 0.5, 2.0, 3.0, 8.0]))
    return {"cone": spec, "vecs": vecs, "shift": shift, "scale": scale}


def enum_laws(tier):
    """Exhaustive: all ordered pairs on a (2k+1)^m lattice for fixed exact cones (as 2-vector cases)."""
    cones2 = [{"kind": "comp", "m": 2}, {"kind": "W", "W": [[1.0, -0.5], [-0.25, 1.0]]},
              {"kind": "W", "W": [[1.0, 0.5], [0.25, 1.0], [1.0, -0.25]]}]
    k = 2 if tier == "quick" else 3
    lat = [x / 2 for x in range(-k, k + 1)]
    pts = [list(p) for p in itertools.product(lat, repeat=2)]
    for spec in cones2:
        for a in pts:
            # 5 vectors per case: a plus four others cycling through the lattice
            for off in range(0, len(pts), 4):
                others = [pts[(off + r) % len(pts)] for r in range(4)]
                yield {"cone": spec, "vecs": [a] + others, "shift": [0.5, -1.25], "scale": 2.0}


# ------------------------------------------------------------------ bundled geometry
def check_theta(case):
    from vopy.order import ConeTheta2DOrder

    deg, phis = case["deg"], case["phi"]
    order = ConeTheta2DOrder(deg)
    W = order.ordering_cone.W
    labels = ["theta", "theta>90" if deg > 90 else "theta<=90"]
    if W.shape != (2, 2) or np.max(np.abs(np.linalg.norm(W, axis=1) - 1)) > 1e-9:
        return Result.violation("C12:theta:W-shape-or-norm", f"deg={deg} W={W.tolist()}", labels)
    nt = False
    for phi in phis:
        ang = math.radians(45.0 + phi)
        x = np.array([math.cos(ang), math.sin(ang)])
        margin = deg / 2 - abs(phi)  # degrees inside (+) / outside (-)
        if abs(margin) < 1e-6:
            continue
        if abs(margin) < 5:
            nt = True
        for r in (1.0, 1e-3, 37.5):
            got = _bool(order.ordering_cone.is_inside(r * x))
            if got != (margin > 0):
                return Result.violation("C12:theta:membership", f"deg={deg} phi={phi} r={r} inside={got} expected={margin > 0} W={W.tolist()}", labels)
            got2 = _bool(order.dominates(r * x + np.array([0.3, -1.1]), np.array([0.3, -1.1])))
            if abs(margin) > 1e-3 and got2 != (margin > 0):
                return Result.violation("C12:theta:dominates", f"deg={deg} phi={phi} r={r}", labels)
    return Result.ok(labels, nt)


@st.composite
def st_theta(draw):
    deg = draw(st.one_of(st.sampled_from(gen.THETAS + [0.5, 179.5, 2.0, 91.0]), st.floats(0.5, 179.5)))
    phis = []
    for _ in range(8):
        mode = draw(st.sampled_from(["any", "near+", "near-"]))
        if mode == "any":
            phis.append(draw(st.floats(-180, 180)))
        else:
            sign = draw(st.sampled_from([1, -1]))
            off = draw(st.floats(1e-5, 5)) * (1 if mode == "near-" else -1)
            p = sign * (deg / 2 + off)
            phis.append(p)
    return {"deg": deg, "phi": phis}


def check_3d(case):
    from vopy.order import ComponentwiseOrder, ConeOrder3D, ConeOrder3DIceCream

    kind = case["kind"]
    labels = [kind]
    if kind == "comp":
        m = case["m"]
        order = ComponentwiseOrder(m)
        if not np.array_equal(order.ordering_cone.W, np.eye(m)):
            return Result.violation("C12:comp:W", f"W={order.ordering_cone.W.tolist()}", labels)
        nt = False
        for a, b in case["pairs"]:
            a, b = np.array(a, float), np.array(b, float)
            exp = bool(np.all(a >= b))
            if _bool(order.dominates(a, b)) != exp:
                return Result.violation("C12:comp:dominates", f"a={a.tolist()} b={b.tolist()}", labels)
            nt |= exp and bool(np.any(a == b)) and bool(np.any(a != b))
        return Result.ok(labels, nt)
    if kind == "c3d":
        order = ConeOrder3D(case["type"])
        W = order.ordering_cone.W
        if W.shape != (3, 3) or np.max(np.abs(np.linalg.norm(W, axis=1) - 1)) > 1e-9:
            return Result.violation("C12:c3d:unit-normals", f"{case['type']} W={W.tolist()}", labels)
        if not _bool(order.ordering_cone.is_inside(np.ones(3))) or np.min(W @ np.ones(3)) <= 1e-9:
            return Result.violation("C12:c3d:diagonal", f"{case['type']} W1={W @ np.ones(3)}", labels)
        if np.linalg.matrix_rank(W) != 3:
            return Result.violation("C12:c3d:rank", f"{case['type']}", labels)
        # acute / right / obtuse: pairwise angle between extreme rays
        R = np.linalg.inv(W)  # columns = extreme rays (W r_i = e_i)
        R = R / np.linalg.norm(R, axis=0)
        cosang = [float(R[:, i] @ R[:, j]) for i, j in ((0, 1), (0, 2), (1, 2))]
        t = case["type"]
        okk = (t == "acute" and all(c > 1e-9 for c in cosang)) or (t == "right" and all(abs(c) < 1e-9 for c in cosang)) or (
            t == "obtuse" and all(c < -1e-9 for c in cosang))
        if not okk:
            return Result.violation("C12:c3d:name-vs-ray-angles", f"{t} cos={cosang}", labels)
        return Result.ok(labels, True)
    # ice cream
    deg, K = case["deg"], case["K"]
    order = ConeOrder3DIceCream(deg, K)
    W = order.ordering_cone.W
    th = math.radians(deg)
    if W.shape != (K, 3) or np.max(np.abs(np.linalg.norm(W, axis=1) - 1)) > 1e-9:
        return Result.violation("C12:ice:unit-normals", f"deg={deg} K={K}", labels)
    axis = W.sum(axis=0)
    if np.linalg.norm(axis) < 1e-9:
        return Result.violation("C12:ice:axis", f"deg={deg} K={K}", labels)
    axis = axis / np.linalg.norm(axis)
    along = W @ axis
    perp = W - np.outer(along, axis)
    pn = np.linalg.norm(perp, axis=1)
    # tangency: min over generators g of the circular cone (half-angle deg about axis) of w.g == 0
    tang = along * math.cos(th) - pn * math.sin(th)
    if np.max(np.abs(tang)) > 1e-9:
        return Result.violation("C12:ice:not-tangent", f"deg={deg} K={K} min w.g={tang.tolist()}", labels)
    if np.max(np.abs(along - math.sin(th))) > 1e-9:
        return Result.violation("C12:ice:facet-angle", f"deg={deg} K={K} w.axis={along.tolist()}", labels)
    # equal spacing about the axis
    u = perp / pn[:, None]
    cosn = [float(u[i] @ u[(i + 1) % K]) for i in range(K)]
    if np.max(np.abs(np.array(cosn) - math.cos(2 * math.pi / K))) > 1e-9:
        return Result.violation("C12:ice:spacing", f"deg={deg} K={K} cos={cosn}", labels)
    # the circular cone lies inside the polyhedral cone; the axis is strictly inside
    for b in np.linspace(0, 2 * math.pi, 25):
        e1 = u[0]
        e2 = np.cross(axis, e1)
        g = math.cos(th) * axis + math.sin(th) * (math.cos(b) * e1 + math.sin(b) * e2)
        if np.min(W @ g) < -1e-9:
            return Result.violation("C12:ice:circular-cone-not-inside", f"deg={deg} K={K}", labels)
    if not _bool(order.ordering_cone.is_inside(axis)):
        return Result.violation("C12:ice:axis-outside", f"deg={deg} K={K}", labels)
    return Result.ok(labels + [f"K={K}"], True)


@st.composite
def st_3d(draw):
    kind = draw(st.sampled_from(["comp", "c3d", "ice", "ice", "ice"]))
    if kind == "comp":
        m = draw(st.integers(1, 5))
        fl = st.one_of(st.floats(-1e6, 1e6), gen.st_dyadic(-2, 2, 2), st.sampled_from([0.0, -0.0, 1e-300, -1e-300]))
        pairs = []
        for _ in range(6):
            a = draw(st.lists(fl, min_size=m, max_size=m))
            b = [x if draw(st.booleans()) else draw(fl) for x in a]
            pairs.append([a, b])
        return {"kind": "comp", "m": m, "pairs": pairs}
    if kind == "c3d":
        return {"kind": "c3d", "type": draw(st.sampled_from(["acute", "right", "obtuse"]))}
    return {"kind": "ice", "deg": draw(st.one_of(st.floats(1, 89), st.sampled_from([5.0, 45.0, 60.0, 85.0]))),
            "K": draw(st.integers(3, 40))}


COMPONENTS = [
    Component("laws_exact", check_laws, strategy=st_laws, quick=3000, thorough=80000,
              rule="dyadic cones (K=m..m+3, m=2..4) and orthants; 5 lattice vectors incl. constructed in-cone/edge moves"),
    Component("laws_lattice_exhaustive", check_laws, enumerate=enum_laws,
              rule="all ordered pairs of a 5x5 (quick) / 7x7 (thorough) half-integer lattice under 3 exact cones"),
    Component("theta_geometry", check_theta, strategy=st_theta, quick=1500, thorough=40000,
              rule="theta in (0.5,179.5) incl. 89.9/90/90.1; directions at 45+phi deg, half of them within 5 deg of a facet"),
    Component("bundled_3d_geometry", check_3d, strategy=st_3d, quick=600, thorough=10000,
              rule="orthant m=1..5 on arbitrary floats with ties; 3-D acute/right/obtuse; ice-cream theta in (1,89), K=3..40"),
]
