"""C05 - VOGP / eps-PAL keep eps-isolated optima; P is internally non-eps-dominated."""
from __future__ import annotations

import numpy as np
from hypothesis import strategies as st

from vverif import gen_runs
from vverif.core import Component, HarnessError, Result
from vverif.harness import algos as ha
from vverif.oracles import geom

RULE = ("history = a whole run to termination of VOGP (all 2-D cones, bundled 3-D cones, K>=m) or eps-PAL on a generated dataset with engineered "
        "eps-isolated designs and near-duplicates, batch 1..3, under an adversarial stub posterior (truth at rectangle corners half of the time) or real GP "
        "models; premise re-verified every round; conclusion on the true values: every design that no other design matches up to eps*u* (eps-PAL: eps in "
        "every objective) is in P, and no member of P is dominated by another member by more than that slack. non-trivial = run with >=2 rounds containing "
        "an eps-isolated design or a pair of P members whose slack margin is within 50% of eps")
ASSUMPTIONS = ["runs whose premise fails (real models only) or that hit the step cap are excluded and counted",
               "decisions within 1e-9*scale of the boundary are indeterminate"]
MAX_STEPS = 150


def check_run(spec):
    algo = spec["algo"]
    labels = ["algo=" + algo, "source=" + spec["source"]]
    alg, ctx = ha.build(spec)
    Y = ctx.truth
    K, m = Y.shape
    W = np.asarray(ctx.order.ordering_cone.W, float)
    Wn = W / np.linalg.norm(W, axis=1)[:, None]
    eps = spec["eps"]
    if algo == "VOGP":
        z, _, _ = geom.ldp(Wn, np.ones(len(Wn)))
        s = eps * z / np.linalg.norm(z)
    else:
        s = np.full(m, float(eps))
    steps, done, premise_ok = 0, False, True
    while steps < MAX_STEPS:
        active = set(alg.S) | set(alg.P)
        flag = alg.run_one_step()
        steps += 1
        regs = ha.regions_of(alg, "rect")
        for i in active:
            if not ha.truth_inside(regs[i], Y[i], "rect"):
                premise_ok = False
                if spec["source"] == "stub":
                    raise HarnessError(f"stub posterior left the truth outside the displayed region (design {i}, step {steps})")
        if flag:
            done = True
            break
    if not done:
        return Result.skip(labels + ["step-cap:inconclusive"])
    if not premise_ok:
        return Result.skip(labels + ["premise-failed"])
    P = set(map(int, alg.P))
    scale = max(1.0, float(np.abs(Y).max()), float(np.abs(s).max()))
    tau = 1e-9 * scale
    # M[x,y] = min_n w_n.(mu_y + s - mu_x): >= 0 means y matches x up to the slack
    M = np.array([[float((Wn @ (Y[y] + s - Y[x])).min()) for y in range(K)] for x in range(K)])
    nt = False
    for x in range(K):
        others = [M[x, y] for y in range(K) if y != x]
        if all(v < -tau for v in others):
            labels.append("eps-isolated-design")
            if others and max(others) > -0.5 * eps:
                nt = True
            nt |= steps >= 2
            if x not in P:
                return Result.violation(f"C05:{algo}:eps-isolated-design-not-in-P",
                                        f"design {x} is matched by no other design up to the slack (best margin {max(others) if others else None}) but P={sorted(P)}; "
                                        f"truth={Y.tolist()} slack={s.tolist()} W={W.tolist()}", labels)
    # D[x,y] = min_n w_n.(mu_y - s - mu_x) > 0: y dominates x by more than the slack
    for x in P:
        for y in P:
            if x == y:
                continue
            d = float((Wn @ (Y[y] - s - Y[x])).min())
            if d > tau:
                return Result.violation(f"C05:{algo}:P-member-eps-dominated-by-member",
                                        f"P={sorted(P)}: design {y} dominates design {x} by more than the slack (margin {d:.4g}); truth={Y.tolist()} slack={s.tolist()}", labels)
            if d > -0.5 * eps and steps >= 2:
                nt = True
    labels.append("rounds>=5" if steps >= 5 else "rounds<5")
    return Result.ok(sorted(set(labels)), nt)


@st.composite
def st_spec(draw, algo, sources=("stub", "stub", "fast")):
    spec = draw(gen_runs.st_run_spec(algo, allow_Kgtm=True, batch_max=3, source=draw(st.sampled_from(list(sources)))))
    if spec["source"] == "fast":
        spec["contraction"] = draw(st.sampled_from([1, 4]))
    return spec


COMPONENTS = [
    Component("vogp_runs", check_run, strategy=lambda: st_spec("VOGP"), quick=220, thorough=8000, rule="VOGP, cones incl. K>m and 3-D, stub and real correlated GP"),
    Component("epal_runs", check_run, strategy=lambda: st_spec("EpsilonPAL"), quick=160, thorough=6000, rule="eps-PAL, m=2..3, stub and real independent GP"),
]
