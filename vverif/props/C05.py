"""C05 - VOGP / eps-PAL keep eps-isolated optima; P is internally non-eps-dominated."""
from __future__ import annotations

import numpy as np
from hypothesis import strategies as st

from vverif import gen_runs
from vverif.core import Component, HarnessError, Result
from vverif.harness import algos as ha
from vverif.oracles import geom

RULE = ("history = a whole run to termination of VOGP (all 2-D cones, bundled 3-D cones, K>=m) or eps-PAL on a generated dataset with engineered "
        "eps-isolated designs and near-duplicates, batch 1..3, under an adversarial stub posterior (truth at rectangle corners half of the time) or real GP "
        "models; premise re-verified every round; conclusion on the true values: every design that no other design matches up to eps*u* (eps-PAL: eps in "
        "every objective) is in P, and no member of P is dominated by another member by more than that slack. non-trivial = run with >=2 rounds containing "
        "an eps-isolated design or a pair of P members whose slack margin is within 50% of eps")
ASSUMPTIONS = ["runs whose premise fails (real models only) or that hit the step cap are excluded and counted",
               "decisions within 1e-9*scale of the boundary are indeterminate"]
MAX_STEPS = 150


def check_run(spec):
    algo = spec["algo"]
    labels = ["algo=" + algo, "source=" + spec["source"]]
    if spec.get("prime_cone") is not None:
        # another instance with a different generic cone of the same shape is constructed first in the same
        # process (state shared between instances must not leak into the checked run)
        prime = dict(spec, cone=spec["prime_cone"])
        prime.pop("prime_cone")
        ha.build(prime)
        labels.append("primed-by-other-instance")
    alg, ctx = ha.build(spec)
    Y = ctx.truth
    K, m = Y.shape
    W = np.asarray(ctx.order.ordering_cone.W, float)
    Wn = W / np.linalg.norm(W, axis=1)[:, None]
    eps = spec["eps"]
    if algo == "VOGP":
        z = geom.ldp_certified(Wn, np.ones(len(Wn)))
        s = eps * z / np.linalg.norm(z)
    else:
        s = np.full(m, float(eps))
    steps, done, premise_ok = 0, False, True
    while steps < MAX_STEPS:
        active = set(alg.S) | set(alg.P)
        flag = alg.run_one_step()
        steps += 1
        regs = ha.regions_of(alg, "rect")
        for i in active:
            if not ha.truth_inside(regs[i], Y[i], "rect"):
                premise_ok = False
                if spec["source"] == "stub":
                    raise HarnessError(f"stub posterior left the truth outside the displayed region (design {i}, step {steps})")
        if flag:
            done = True
            break
    if not done:
        return Result.skip(labels + ["step-cap:inconclusive"])
    if not premise_ok:
        return Result.skip(labels + ["premise-failed"])
    P = set(map(int, alg.P))
    scale = max(1.0, float(np.abs(Y).max()), float(np.abs(s).max()))
    tau = 1e-9 * scale
    # M[x,y] = min_n w_n.(mu_y + s - mu_x): >= 0 means y matches x up to the slack
    M = np.array([[float((Wn @ (Y[y] + s - Y[x])).min()) for y in range(K)] for x in range(K)])
    nt = False
    for x in range(K):
        others = [M[x, y] for y in range(K) if y != x]
        if all(v < -tau for v in others):
            labels.append("eps-isolated-design")
            if others and max(others) > -0.5 * eps:
                nt = True
            nt |= steps >= 2
            if x not in P:
                return Result.violation(f"C05:{algo}:eps-isolated-design-not-in-P",
                                        f"design {x} is matched by no other design up to the slack (best margin {max(others) if others else None}) but P={sorted(P)}; "
                                        f"truth={Y.tolist()} slack={s.tolist()} W={W.tolist()}", labels)
    # D[x,y] = min_n w_n.(mu_y - s - mu_x) > 0: y dominates x by more than the slack
    for x in P:
        for y in P:
            if x == y:
                continue
            d = float((Wn @ (Y[y] - s - Y[x])).min())
            if d > tau:
                return Result.violation(f"C05:{algo}:P-member-eps-dominated-by-member",
                                        f"P={sorted(P)}: design {y} dominates design {x} by more than the slack (margin {d:.4g}); truth={Y.tolist()} slack={s.tolist()}", labels)
            if d > -0.5 * eps and steps >= 2:
                nt = True
    labels.append("rounds>=5" if steps >= 5 else "rounds<5")
    return Result.ok(sorted(set(labels)), nt)


@st.composite
def st_spec(draw, algo, sources=("stub", "stub", "fast")):
    spec = draw(gen_runs.st_run_spec(algo, allow_Kgtm=True, batch_max=3, source=draw(st.sampled_from(list(sources)))))
    if spec["source"] == "fast":
        spec["contraction"] = draw(st.sampled_from([1, 4]))
    return spec


@st.composite
def st_acute_spec(draw):
    """VOGP under acute cones (facet normals with negative entries) with a stub posterior whose boxes are wide relative to the
    gaps: the regime in which a corner-pair shortcut for 'every point dominated' differs from the full vertex comparison."""
    cone = draw(st.sampled_from([{"kind": "theta", "deg": 20.0}, {"kind": "theta", "deg": 30.0}, {"kind": "theta", "deg": 45.0},
                                 {"kind": "theta", "deg": 60.0}, {"kind": "c3d", "type": "acute"}]))
    spec = draw(gen_runs.st_run_spec("VOGP", allow_Kgtm=False, batch_max=2, source="stub", cone=cone,
                                     eps=draw(st.sampled_from([0.05, 0.1, 0.2]))))
    spec["stub"]["cov_scale"] = draw(st.sampled_from([0.3, 1.0, 3.0]))
    spec["stub"]["rho"] = draw(st.sampled_from([0.7, 0.85, 0.95]))
    return spec


@st.composite
def st_facetwise_spec(draw):
    """VOGP on a generic (asymmetric) K = m cone with pairs of designs whose facet margins are each just above the
    true slack eps*u* (factors 1.05..2 per facet): the better one must keep the other out of P.  A second instance
    with another generic cone of the same shape is built first in the same process."""
    import numpy as np

    from vverif import gen
    from vverif.harness import data as hdata

    m = draw(st.sampled_from([2, 2, 3]))
    cone = draw(gen.st_diag_cone(m, 0))
    other = draw(gen.st_diag_cone(m, 0))
    if cone["kind"] != "diag" or other["kind"] != "diag":
        cone = {"kind": "diag", "m": 2, "phi": [0.3, 1.2]}
        other = {"kind": "diag", "m": 2, "phi": [1.1, 0.4]}
        m = 2
    W = gen.cone_W(cone)
    Wn = W / np.linalg.norm(W, axis=1)[:, None]
    z = geom.ldp_certified(Wn, np.ones(m))
    eps = draw(st.sampled_from([0.1, 0.3]))
    s = eps * z / np.linalg.norm(z)
    Y = [[round(draw(st.floats(-0.3, 0.3)), 3) for _ in range(m)]]
    n_pairs = draw(st.integers(1, 3))
    for _ in range(n_pairs):
        ref = np.array(Y[draw(st.integers(0, len(Y) - 1))])
        c = np.array([draw(st.sampled_from([1.05, 1.2, 1.4, 2.0])) for _ in range(m)])
        step = np.linalg.solve(Wn, c * (Wn @ s))
        Y.append((ref + draw(st.sampled_from([1, -1])) * step).tolist())
    K = len(Y)
    stub = draw(gen_runs.st_stub(m))
    return {"algo": "VOGP", "cone": cone, "prime_cone": other, "eps": eps, "delta": 0.1, "noise_var": 0.01, "contraction": draw(st.sampled_from([1, 4])),
            "X": hdata.grid_inputs(K, 2).tolist(), "Y": Y, "seed": draw(st.integers(0, 2**31 - 1)), "source": "stub", "stub": stub,
            "batch": draw(st.integers(1, 2))}


COMPONENTS = [
    Component("vogp_runs", check_run, strategy=lambda: st_spec("VOGP"), quick=220, thorough=8000, rule="VOGP, cones incl. K>m and 3-D, stub and real correlated GP"),
    Component("vogp_facetwise_just_above_slack", check_run, strategy=st_facetwise_spec, quick=200, thorough=6000,
              rule="generic asymmetric K=m cones; design pairs whose facet margins are 1.05..2 x the true slack; a second VOGP instance with another cone built first"),
    Component("vogp_acute_cones_wide_boxes", check_run, strategy=st_acute_spec, quick=160, thorough=6000,
              rule="VOGP, acute 2-D (20..60 degrees) and 3-D cones, stub posterior with boxes wide relative to eps, truth at box corners"),
    Component("epal_runs", check_run, strategy=lambda: st_spec("EpsilonPAL"), quick=160, thorough=6000, rule="eps-PAL, m=2..3, stub and real independent GP"),
]
