"""Closed-form Gaussian-process conditioning in numpy (no gpytorch): the reference for C14/C15."""
from __future__ import annotations

import numpy as np


def rbf(X1, X2, ls, scale=1.0):
    X1 = np.asarray(X1, float).reshape(-1, len(ls))
    X2 = np.asarray(X2, float).reshape(-1, len(ls))
    d = (X1[:, None, :] - X2[None, :, :]) / np.asarray(ls, float)[None, None, :]
    return scale * np.exp(-0.5 * (d**2).sum(-1))


def joint_posterior(X, Y, Xs, kfun, noise, mean_const):
    """Multi-output GP, all outputs observed at every training input.

    kfun(A, B) -> array (m, m, len(A), len(B)) of cross-covariances between outputs a, b.
    noise: scalar sigma^2 or (m, m) task-noise matrix (added per training point).
    Returns mean (N, m) and per-point covariance (N, m, m) of the latent function."""
    X = np.asarray(X, float)
    Xs = np.asarray(Xs, float)
    m = len(mean_const)
    n, N = len(X), len(Xs)
    c = np.asarray(mean_const, float)
    D = np.eye(m) * noise if np.ndim(noise) == 0 else np.asarray(noise, float)
    Kss = kfun(Xs, Xs)  # (m,m,N,N)
    prior_cov = np.stack([Kss[:, :, i, i] for i in range(N)])
    if n == 0:
        return np.tile(c, (N, 1)), prior_cov
    Ktt = kfun(X, X)
    # point-major interleaving: index (i, a) -> i*m + a
    K = Ktt.transpose(2, 0, 3, 1).reshape(n * m, n * m) + np.kron(np.eye(n), D)
    Kst = kfun(Xs, X).transpose(2, 0, 3, 1).reshape(N * m, n * m)
    r = (np.asarray(Y, float).reshape(n, m) - c[None, :]).reshape(n * m)
    L = np.linalg.cholesky(K)
    A = np.linalg.solve(L, Kst.T)  # (n m, N m)
    alpha = np.linalg.solve(L.T, np.linalg.solve(L, r))
    mean = (Kst @ alpha).reshape(N, m) + c[None, :]
    cov = np.empty((N, m, m))
    for i in range(N):
        Ai = A[:, i * m:(i + 1) * m]
        cov[i] = prior_cov[i] - Ai.T @ Ai
    return mean, cov


def independent_kfun(ls, os):
    """Independent outputs: output a has RBF(ls[a]) * os[a]."""
    ls = np.asarray(ls, float)
    m = len(os)

    def k(A, B):
        out = np.zeros((m, m, len(A), len(B)))
        for a in range(m):
            out[a, a] = rbf(A, B, ls[a], os[a])
        return out

    return k


def correlated_kfun(ls, B):
    """Intrinsic coregionalisation: cov((x,a),(x',b)) = RBF_ls(x,x') * B[a,b]."""
    B = np.asarray(B, float)
    m = len(B)

    def k(A, Bx):
        base = rbf(A, Bx, ls, 1.0)
        return B[:, :, None, None] * base[None, None, :, :]

    return k


def single_posterior(X, y, Xs, ls, os, noise, c):
    """Single-output GP with constant mean c; returns mean (N,), variance (N,)."""
    X = np.asarray(X, float).reshape(-1, len(ls))
    Xs = np.asarray(Xs, float).reshape(-1, len(ls))
    kss = np.full(len(Xs), float(os))
    if len(X) == 0:
        return np.full(len(Xs), float(c)), kss
    K = rbf(X, X, ls, os) + noise * np.eye(len(X))
    Ks = rbf(Xs, X, ls, os)
    L = np.linalg.cholesky(K)
    alpha = np.linalg.solve(L.T, np.linalg.solve(L, np.asarray(y, float) - c))
    A = np.linalg.solve(L, Ks.T)
    return Ks @ alpha + c, kss - (A**2).sum(0)
