"""Independent geometric oracles.  Nothing here imports vopy.

Every numeric oracle returns certified bounds (lb, ub) on a signed margin: lb is attained by an
explicit primal point checked with plain arithmetic, ub by an explicit dual multiplier checked with
plain arithmetic, so a solver failure can widen the bracket (inconclusive) but never flip a verdict.
"""
from __future__ import annotations

import itertools
from fractions import Fraction

import numpy as np
from scipy.optimize import linprog, minimize, nnls


# ------------------------------------------------------------------ exact rational dominance
def frac_matrix(W):
    return [[Fraction(float(x)) for x in row] for row in W]


def exact_inside(Wf, d) -> bool:
    """d in {x : W x >= 0} in exact rational arithmetic (floats are dyadic rationals)."""
    df = [Fraction(float(x)) for x in d]
    return all(sum(w * x for w, x in zip(row, df)) >= 0 for row in Wf)


def exact_facets(Wf, d):
    df = [Fraction(float(x)) for x in d]
    return [sum(w * x for w, x in zip(row, df)) for row in Wf]


def float_facets(W, d):
    return np.asarray(W, float) @ np.asarray(d, float)


# ------------------------------------------------------------------ boxes
def box_min_facet(W, lo, hi):
    """min over d in [lo,hi] of w_n . d, per facet (closed form)."""
    W = np.asarray(W, float)
    return np.minimum(W * lo, W * hi).sum(axis=1)


def box_max_lin(c, lo, hi):
    return float(np.maximum(c * lo, c * hi).sum())


def box_cone_margin(W, lo, hi, s=None):
    """Bracket of  M = max_{d in [lo,hi]} min_n  w_n.(d - s) / ||w_n||   (s: objective-space shift).

    Returns (lb, ub, d_star).  lb from the LP's primal point by arithmetic; ub from its dual
    multipliers by arithmetic (falls back to a trivial bound if the LP fails)."""
    W = np.asarray(W, float)
    K, m = W.shape
    lo = np.asarray(lo, float)
    hi = np.asarray(hi, float)
    s = np.zeros(m) if s is None else np.broadcast_to(np.asarray(s, float), (m,))
    nrm = np.linalg.norm(W, axis=1)
    Wn = W / nrm[:, None]
    # variables (d, t): maximise t  s.t.  t - wn.d <= -wn.s
    c = np.zeros(m + 1)
    c[-1] = -1.0
    A = np.hstack([-Wn, np.ones((K, 1))])
    b = -(Wn @ s)
    scale = max(1.0, float(np.max(np.abs(np.concatenate([lo, hi, s])))))
    bounds = [(lo[k], hi[k]) for k in range(m)] + [(None, None)]
    mid = (lo + hi) / 2
    best_d, lb = mid, float(np.min(Wn @ (mid - s)))
    # trivial certified upper bound: each facet maximised separately
    ub = float(np.min(np.maximum(Wn * lo, Wn * hi).sum(axis=1) - Wn @ s))
    try:
        res = linprog(c, A_ub=A, b_ub=b, bounds=bounds, method="highs")
    except Exception:  # noqa: BLE001
        res = None
    if res is not None and res.status == 0:
        d = np.clip(res.x[:m], lo, hi)
        v = float(np.min(Wn @ (d - s)))
        if v > lb:
            lb, best_d = v, d
        lam = -np.asarray(res.ineqlin.marginals, float)
        lam = np.maximum(lam, 0.0)
        if lam.sum() > 0:
            lam = lam / lam.sum()
            g = Wn.T @ lam
            cand = box_max_lin(g, lo, hi) - float(g @ s)
            ub = min(ub, cand)
    # vertices as extra primal candidates (cheap for m <= 4)
    if m <= 4:
        for vtx in itertools.product(*zip(lo, hi)):
            v = float(np.min(Wn @ (np.array(vtx) - s)))
            if v > lb:
                lb, best_d = v, np.array(vtx)
    if lb > ub + 1e-9 * scale:
        raise AssertionError(f"box_cone_margin certificates inconsistent lb={lb} ub={ub}")
    return lb, max(ub, lb), best_d


# ------------------------------------------------------------------ ellipsoids  {x: (x-c)' S^-1 (x-c) <= a^2}
def ell_support(S, a, g):
    """max over the ellipsoid (centre 0) of g.x = a * sqrt(g' S g)."""
    q = float(g @ S @ g)
    return a * np.sqrt(max(q, 0.0))


def ell_dominated_margins(W, c1, S1, a1, c2, S2, a2, slack):
    """Per facet: min_{x in E1, y in E2} w_n.(y - x) + slack_n  (closed form)."""
    W = np.asarray(W, float)
    K = W.shape[0]
    sl = np.broadcast_to(np.asarray(slack, float).reshape(-1), (K,)) if np.size(slack) != K else np.asarray(slack, float).reshape(K)
    out = np.empty(K)
    for n in range(K):
        w = W[n]
        out[n] = w @ (c2 - c1) - ell_support(S2, a2, w) - ell_support(S1, a1, w) + sl[n]
    return out


def ell_cover_margin(W, c1, S1, a1, c2, S2, a2, slack, starts=4):
    """Bracket of  M = max_{x in E1, y in E2} min_n ( w_n.(y - x) - slack_n ).

    ub: g(lam) = lam.(W(c2-c1) - s) + a2 ||S2^1/2 W'lam|| + a1 ||S1^1/2 W'lam||  for any lam in the
    simplex (weak duality, arithmetic).  lb: value at an explicit pair (x, y) inside the ellipsoids."""
    W = np.asarray(W, float)
    K, m = W.shape
    sl = np.broadcast_to(np.asarray(slack, float).reshape(-1), (K,)) if np.size(slack) != K else np.asarray(slack, float).reshape(K)
    dc = W @ (c2 - c1) - sl

    def g(lam):
        v = W.T @ lam
        return float(lam @ dc + ell_support(S2, a2, v) + ell_support(S1, a1, v))

    def primal_from(lam):
        v = W.T @ lam
        n1 = np.sqrt(max(float(v @ S1 @ v), 1e-300))
        n2 = np.sqrt(max(float(v @ S2 @ v), 1e-300))
        x = c1 - a1 * (S1 @ v) / n1
        y = c2 + a2 * (S2 @ v) / n2
        return x, y

    def val(x, y):
        return float(np.min(W @ (y - x) - sl))

    scale = max(1e-12, float(np.max(np.abs(dc))), a1 * np.sqrt(np.max(np.diag(S1))), a2 * np.sqrt(np.max(np.diag(S2))))
    best_ub, best_lb = np.inf, val(c1, c2)
    cands = [np.ones(K) / K] + [np.eye(K)[i] for i in range(K)]
    cands = cands[: max(starts, K + 1)]
    cons = [{"type": "eq", "fun": lambda l: l.sum() - 1.0}]
    for l0 in cands:
        u0 = g(l0)
        if u0 < best_ub:
            best_ub, best_lam = u0, l0
    # scaled objective for conditioning
    for l0 in [np.ones(K) / K, best_lam]:
        try:
            res = minimize(lambda l: g(l) / scale, l0, method="SLSQP", bounds=[(0, 1)] * K,
                           constraints=cons, options={"maxiter": 300, "ftol": 1e-15})
            lam = np.clip(res.x, 0, None)
            if lam.sum() > 0:
                lam = lam / lam.sum()
                u = g(lam)
                if u < best_ub:
                    best_ub, best_lam = u, lam
        except Exception:  # noqa: BLE001
            pass
    x, y = primal_from(best_lam)
    best_lb = max(best_lb, val(x, y))
    # polish the primal with a direct max-min solve when the gap is not tiny
    if best_ub - best_lb > 1e-7 * scale:
        L1 = np.linalg.cholesky(S1 + 1e-300 * np.eye(m))
        L2 = np.linalg.cholesky(S2 + 1e-300 * np.eye(m))

        def unpack(p):
            return c1 + a1 * (L1 @ p[:m]), c2 + a2 * (L2 @ p[m : 2 * m]), p[-1]

        pcons = [
            {"type": "ineq", "fun": lambda p: 1.0 - p[:m] @ p[:m]},
            {"type": "ineq", "fun": lambda p: 1.0 - p[m : 2 * m] @ p[m : 2 * m]},
            {"type": "ineq", "fun": lambda p: (W @ (unpack(p)[1] - unpack(p)[0]) - sl) / scale - p[-1]},
        ]
        p0 = np.concatenate([np.linalg.solve(L1, (x - c1)) / max(a1, 1e-300) * 0.999,
                             np.linalg.solve(L2, (y - c2)) / max(a2, 1e-300) * 0.999, [best_lb / scale]])
        try:
            res = minimize(lambda p: -p[-1], p0, method="SLSQP", constraints=pcons,
                           options={"maxiter": 300, "ftol": 1e-15})
            px, py = res.x[:m], res.x[m : 2 * m]
            px = px / max(1.0, np.linalg.norm(px))
            py = py / max(1.0, np.linalg.norm(py))
            xx, yy = c1 + a1 * (L1 @ px), c2 + a2 * (L2 @ py)
            best_lb = max(best_lb, val(xx, yy))
        except Exception:  # noqa: BLE001
            pass
    if best_lb > best_ub + 1e-9 * scale:
        raise AssertionError(f"ell_cover_margin certificates inconsistent lb={best_lb} ub={best_ub}")
    return best_lb, max(best_ub, best_lb)


# ------------------------------------------------------------------ cone constants via NNLS
def cone_alpha(W):
    """alpha_n = max{ w_n.x : x in C, ||x|| <= 1 } = || P_C(w_n) ||  (Moreau).  Returns (alpha, lb, ub)."""
    W = np.asarray(W, float)
    K, m = W.shape
    al, lbs, ubs = np.zeros(K), np.zeros(K), np.zeros(K)
    for n in range(K):
        w = W[n]
        lam, _ = nnls(W.T, -w, maxiter=50 * K + 200)
        p = w + W.T @ lam
        ub = float(np.linalg.norm(p))  # valid for any lam >= 0
        lb = 0.0
        if ub > 0:
            x = p / ub
            viol = float(np.min(W @ x))
            if viol < 0:  # pull slightly inside along an interior-ish direction; else accept lb=0
                pass
            if viol >= -1e-12:
                lb = float(w @ x)
        al[n], lbs[n], ubs[n] = ub, lb, ub
    return al, lbs, ubs


class OracleInconclusive(Exception):
    """An oracle could not certify its own answer (solver failure): the case is indeterminate, never a verdict."""


def _ldp_nnls(G, h):
    K, m = G.shape
    E = np.vstack([G.T, h[None, :]])
    f = np.zeros(m + 1)
    f[-1] = 1.0
    u, rn = nnls(E, f, maxiter=100 * K + 500)
    r = E @ u - f
    if abs(r[-1]) < 1e-14:
        return None, None
    return -r[:m] / r[-1], u


def _ldp_certificate(G, h, z, lam):
    """(primal feasible?, dual lower bound): ||z*|| >= lam.h / ||G'lam|| for every lam >= 0."""
    tol = 1e-9 * max(1.0, float(np.abs(h).max()))
    feas = bool(np.min(G @ z - h) >= -tol)
    lam = np.maximum(np.asarray(lam, float), 0.0)
    den = np.linalg.norm(G.T @ lam)
    lb = float(lam @ h / den) if den > 0 else 0.0
    return feas, max(lb, 0.0)


def ldp(G, h):
    """min ||z|| s.t. G z >= h  (Lawson-Hanson LDP via NNLS).  Returns (z, lb, certified).

    certified = z is primal feasible and ||z|| - lb <= 1e-7 (1 + ||z||), both checked with plain arithmetic.  scipy's
    NNLS occasionally returns a non-optimal point without complaint (seen for a 10-facet cone whose rows had been
    renormalised, i.e. changed in the last bit); then an SLSQP solve from a feasible start with multipliers recovered by
    NNLS on the active rows is tried, and if that cannot be certified either the answer is (z or None, lb, False)."""
    G = np.asarray(G, float)
    h = np.asarray(h, float)
    K, m = G.shape
    if np.all(h <= 0):
        return np.zeros(m), 0.0, True
    best_lb = 0.0
    z, lam = _ldp_nnls(G, h)
    if z is not None:
        feas, lb = _ldp_certificate(G, h, z, lam)
        best_lb = max(best_lb, lb)
        if feas and np.linalg.norm(z) - lb <= 1e-7 * (1.0 + np.linalg.norm(z)):
            return z, lb, True
    # fallback: a feasible start (scaled sum of rows if it is interior), SLSQP, multipliers from the active set
    z0 = G.sum(axis=0)
    g0 = G @ z0
    pos = h > 0
    if np.all(g0[pos] > 0):
        z0 = z0 * float(np.max(h[pos] / g0[pos]))
        if np.min(G @ z0 - h) >= -1e-12:
            res = minimize(lambda x: 0.5 * x @ x, z0, jac=lambda x: x, method="SLSQP",
                           constraints=[{"type": "ineq", "fun": lambda x: G @ x - h, "jac": lambda x: G}],
                           options={"maxiter": 500, "ftol": 1e-15})
            zz = np.asarray(res.x, float)
            viol = float(np.min(G @ zz - h))
            if viol < 0:  # pull back into the feasible set along z0 (feasible, and the set is convex)
                lo_, hi_ = 0.0, 1.0
                for _ in range(60):
                    mid = (lo_ + hi_) / 2
                    if np.min(G @ (zz + mid * (z0 - zz)) - h) >= 0:
                        hi_ = mid
                    else:
                        lo_ = mid
                zz = zz + hi_ * (z0 - zz)
            act = np.where(G @ zz - h <= 1e-7 * max(1.0, float(np.abs(h).max())))[0]
            lam = np.zeros(K)
            if len(act):
                la, _ = nnls(G[act].T, zz, maxiter=100 * K + 500)
                lam[act] = la
            feas, lb = _ldp_certificate(G, h, zz, lam)
            best_lb = max(best_lb, lb)
            if feas and np.linalg.norm(zz) - lb <= 1e-7 * (1.0 + np.linalg.norm(zz)):
                return zz, lb, True
            if feas:
                return zz, best_lb, False
    return z, best_lb, False


def ldp_certified(G, h):
    """z* of the LDP or OracleInconclusive."""
    z, lb, ok = ldp(G, h)
    if not ok:
        raise OracleInconclusive("LDP solve could not be certified")
    return z


def cover_distance(W, vi, vj):
    """min ||u|| : u in C, vj + u - vi in C.  Returns (ub_from_primal, lb_from_dual)."""
    W = np.asarray(W, float)
    h = np.maximum(0.0, W @ (np.asarray(vi, float) - np.asarray(vj, float)))
    z, lb, feas = ldp(W, h)
    if z is None:
        return np.inf, lb
    # primal certificate: scale z so that constraints hold exactly
    if np.all(h <= 0):
        return 0.0, 0.0
    g = W @ z
    with np.errstate(divide="ignore", invalid="ignore"):
        ratio = np.where(h > 0, g / h, np.inf)
    fac = float(np.min(ratio))
    if fac <= 0:
        return np.inf, lb
    zz = z / min(fac, 1.0) if fac < 1 else z
    if np.min(W @ zz - h) < -1e-9 * max(1.0, np.abs(h).max()):
        return np.inf, lb
    return float(np.linalg.norm(zz)), lb


# ------------------------------------------------------------------ Pareto brute force
def dominance_matrix(points, W, exact=False):
    """D[i,j] = points[i] - points[j] in C  (i weakly dominates j)."""
    P = np.asarray(points, float)
    n = len(P)
    if exact:
        Wf = frac_matrix(W)
        return np.array([[exact_inside(Wf, P[i] - P[j]) for j in range(n)] for i in range(n)], bool)
    diff = P[:, None, :] - P[None, :, :]
    return (diff @ np.asarray(W, float).T >= 0).all(axis=-1)


def min_abs_facet(points, W):
    """Smallest non-zero-ish |w.(p_i - p_j)| over pairs - used for banding with irrational cones."""
    P = np.asarray(points, float)
    diff = P[:, None, :] - P[None, :, :]
    v = np.abs(diff @ np.asarray(W, float).T)
    return v
