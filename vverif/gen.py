"""Shared generators: cone specifications (plain data) and their construction through VOPy's
public constructors, rectangles, ellipsoids, datasets."""
from __future__ import annotations

import functools
import json
import math

import numpy as np
from hypothesis import strategies as st

# --------------------------------------------------------------------------- cones


def _unit(v):
    v = np.asarray(v, float)
    return v / np.linalg.norm(v)


def cone_W(spec) -> np.ndarray:
    """Matrix of a cone spec WITHOUT going through VOPy (used by oracles and for random cones)."""
    k = spec["kind"]
    if k == "W":
        return np.array(spec["W"], float)
    if k == "diag":  # rows = normalize(cos(phi_n) d + sin(phi_n) r_n), d = diagonal: solid by construction
        m = spec["m"]
        d = np.ones(m) / math.sqrt(m)
        rows = []
        if m == 2:
            r = np.array([-1.0, 1.0]) / math.sqrt(2)
            for n, phi in enumerate(spec["phi"]):
                s = 1.0 if n % 2 == 0 else -1.0
                rows.append(math.cos(phi) * d + s * math.sin(phi) * r)
        else:
            # orthonormal basis of the complement of d
            B = np.linalg.svd(np.eye(m) - np.outer(d, d))[0][:, : m - 1]
            K = len(spec["phi"])
            for n, phi in enumerate(spec["phi"]):
                if m == 3:
                    psi = spec["psi0"] + 2 * math.pi * (n + spec["jit"][n]) / K
                    r = B @ np.array([math.cos(psi), math.sin(psi)])
                else:  # m == 4: first m-1 rows along +/- basis, rest generic directions
                    dirs = [B[:, 0], B[:, 1], B[:, 2], -_unit(B.sum(axis=1))]
                    base = dirs[n % 4]
                    r = _unit(base + 0.3 * spec["jit"][n] * dirs[(n + 1) % 4])
                    r = _unit(r - (r @ d) * d)
                rows.append(math.cos(phi) * d + math.sin(phi) * r)
        return np.array([_unit(r) for r in rows])
    raise ValueError(k)


@functools.lru_cache(maxsize=512)
def _make_order_cached(key: str):
    from vopy.order import (
        ComponentwiseOrder,
        ConeOrder3D,
        ConeOrder3DIceCream,
        ConeTheta2DOrder,
        PolyhedralConeOrder,
    )
    from vopy.ordering_cone import OrderingCone

    spec = json.loads(key)
    k = spec["kind"]
    if k == "comp":
        return ComponentwiseOrder(spec["m"])
    if k == "theta":
        return ConeTheta2DOrder(spec["deg"])
    if k == "c3d":
        return ConeOrder3D(spec["type"])
    if k == "ice":
        return ConeOrder3DIceCream(spec["deg"], spec["K"])
    if spec.get("int"):
        # integer-valued cone matrix handed over with an integer dtype (as in the class docstring's example)
        W = np.array(spec["W"]).astype(int)
        return PolyhedralConeOrder(OrderingCone(W if spec["int"] == "array" else W.tolist()))
    return PolyhedralConeOrder(OrderingCone(cone_W(spec)))


def make_order(spec):
    return _make_order_cached(json.dumps(spec, sort_keys=True))


def spec_dim(spec) -> int:
    k = spec["kind"]
    if k in ("comp", "diag"):
        return spec["m"]
    if k == "theta":
        return 2
    if k in ("c3d", "ice"):
        return 3
    return len(spec["W"][0])


THETAS = [1.0, 10.0, 30.0, 45.0, 60.0, 89.9, 90.0, 90.1, 120.0, 135.0, 150.0, 179.0]


def st_theta():
    return st.one_of(
        st.sampled_from(THETAS), st.floats(1.0, 179.0).map(lambda x: round(x, 3))
    ).map(lambda d: {"kind": "theta", "deg": d})


def st_bundled(m=None):
    opts = []
    if m in (None, 2):
        opts += [st.just({"kind": "comp", "m": 2}), st_theta()]
    if m in (None, 3):
        opts += [
            st.just({"kind": "comp", "m": 3}),
            st.sampled_from(["acute", "right", "obtuse"]).map(lambda t: {"kind": "c3d", "type": t}),
            st.builds(
                lambda d, K: {"kind": "ice", "deg": d, "K": K},
                st.one_of(st.sampled_from([5.0, 30.0, 45.0, 60.0, 85.0]),
                          st.floats(5.0, 85.0).map(lambda x: round(x, 2))),
                st.integers(3, 12),
            ),
        ]
    if m == 4:
        opts += [st.just({"kind": "comp", "m": 4})]
    return st.one_of(*opts)


@st.composite
def st_dyadic_cone(draw, m=None, max_extra=3, den=8):
    """Pointed solid cone with dyadic entries: W = [I+E; extra], E strictly diagonally dominated,
    every row sum > 0 (so the diagonal is interior) -> exact arithmetic decides everything."""
    if m is None:
        m = draw(st.sampled_from([2, 2, 3, 3, 4]))
    lim = {2: 3, 3: 2, 4: 1}[m] * (den // 8)
    rows = []
    for i in range(m):
        row = [draw(st.integers(-lim, lim)) / den for _ in range(m)]
        row[i] = 1.0
        rows.append(row)
    for _ in range(draw(st.integers(0, max_extra))):
        row = [draw(st.integers(-den, 2 * den)) / den for _ in range(m)]
        s = sum(row)
        if s <= 0:  # make the diagonal strictly interior
            row = [x + (-s + 1) / m for x in row]
            row = [round(x * den) / den for x in row]
            if sum(row) <= 0:
                row = [1.0] * m
        rows.append(row)
    return {"kind": "W", "W": rows}


@st.composite
def st_int_cone(draw, m=None, max_extra=2):
    """Pointed solid cone with small INTEGER entries, passed to VOPy with an integer dtype (array or nested list)."""
    if m is None:
        m = draw(st.sampled_from([2, 2, 3]))
    rows = []
    for i in range(m):
        row = [draw(st.integers(-1, 1)) for _ in range(m)]
        row[i] = m + draw(st.integers(0, 1))  # strictly diagonally dominant, positive row sum
        rows.append(row)
    for _ in range(draw(st.integers(0, max_extra))):
        row = [draw(st.integers(0, 3)) for _ in range(m)]
        if sum(row) == 0:
            row[0] = 1
        rows.append(row)
    return {"kind": "W", "W": rows, "int": draw(st.sampled_from(["array", "list"]))}


@st.composite
def st_skew_cone(draw, m=None, max_extra=2):
    """Image of a dyadic cone under integer shears: pointed and solid, but NOT centred on the diagonal
    (it may contain vectors with negative coordinate sum, and (1,..,1) need not lie in its dual)."""
    base = draw(st_dyadic_cone(m, max_extra))
    W = np.array(base["W"], float)
    mm = W.shape[1]
    for _ in range(draw(st.integers(1, 2))):
        i = draw(st.integers(0, mm - 1))
        j = draw(st.integers(0, mm - 2))
        j = j if j < i else j + 1
        sft = draw(st.sampled_from([-2, -1, 1, 2]))
        Tinv = np.eye(mm)
        Tinv[i, j] = -sft  # inverse of the shear x_i += sft * x_j ; W' = W T^-1 describes the sheared cone
        W = W @ Tinv
    return {"kind": "W", "W": W.tolist()}


@st.composite
def st_rescaled_cone(draw, m=None, max_extra=2):
    """Unit-normal cone whose rows are rescaled by 0.25..4: same cone, different (non-unit) matrix."""
    base = draw(st_diag_cone(m, max_extra))
    W = cone_W(base) if base["kind"] == "diag" else np.eye(base["m"])
    f = [draw(st.sampled_from([0.25, 0.5, 1.0, 2.0, 4.0])) for _ in range(len(W))]
    return {"kind": "W", "W": (W * np.array(f)[:, None]).tolist()}


@st.composite
def st_diag_cone(draw, m=None, max_extra=3):
    """Unit-normal cone around the diagonal, half-angles 5..85 degrees, K = m..m+max_extra facets."""
    if m is None:
        m = draw(st.sampled_from([2, 2, 3, 3, 4]))
    K = m if m == 2 else m + draw(st.integers(0, max_extra))
    if m == 2:
        K = 2 + draw(st.integers(0, min(2, max_extra)))
    phi = [round(math.radians(draw(st.floats(5, 85))), 6) for _ in range(K)]
    spec = {"kind": "diag", "m": m, "phi": phi}
    if m >= 3:
        spec["psi0"] = round(draw(st.floats(0, 6.28)), 4)
        spec["jit"] = [round(draw(st.floats(-0.35, 0.35)), 4) for _ in range(K)]
    W = cone_W(spec)
    if np.linalg.svd(W, compute_uv=False)[-1] < 0.05:  # (rare) nearly flat: fall back, no rejection
        return {"kind": "comp", "m": m}
    return spec


def st_cone(m=None, exact_only=False, max_extra=3):
    if exact_only:
        return st.one_of(st_dyadic_cone(m, max_extra), st_skew_cone(m, min(2, max_extra)))
    if m == 4:
        return st.one_of(st_bundled(m), st_dyadic_cone(m, max_extra), st_diag_cone(m, max_extra))
    return st.one_of(st_bundled(m), st_dyadic_cone(m, max_extra), st_diag_cone(m, max_extra), st_int_cone(m, min(2, max_extra)),
                     st_skew_cone(m, min(2, max_extra)))


def cone_labels(spec):
    W = cone_W(spec) if spec["kind"] in ("W", "diag") else None
    lab = ["cone:" + spec["kind"] + ("-int" if spec.get("int") else "")]
    if spec["kind"] == "ice":
        K, m = spec["K"], 3
    elif W is not None:
        K, m = W.shape
    else:
        K = m = spec_dim(spec)
    if K > m:
        lab.append("K>m")
    lab.append(f"m={m}")
    return lab


# --------------------------------------------------------------------------- numbers


def st_dyadic(lo=-8, hi=8, den=4):
    return st.integers(lo * den, hi * den).map(lambda k: k / den)


def st_logfloat(lo, hi):
    return st.floats(math.log(lo), math.log(hi)).map(lambda x: float(f"{math.exp(x):.6g}"))
