"""One shard of one component: survey phase (collect violations by signature, never raise),
then a shrink phase per new signature.  Jobs are executed by a pool of spawned worker processes (heavy imports paid once per process).
"""
from __future__ import annotations

import glob
import json
import os
import sys
import time
import traceback

from vverif.core import HERE, HarnessError, canon, case_hash, load_property, run_check


class StopRun(BaseException):
    pass


class Stats:
    def __init__(self, known=()):
        self.known = set(known)
        self.evals = 0
        self.status = {}
        self.labels = {}
        self.nontrivial = set()
        self.samples = []
        self.viol = {}  # sig -> dict(count, case, detail, size)
        self.inconclusive = False

    def record(self, case, r):
        self.evals += 1
        skey = "known_finding" if r.status == "violation" and r.sig in self.known else r.status
        self.status[skey] = self.status.get(skey, 0) + 1
        for lb in r.labels:
            self.labels[lb] = self.labels.get(lb, 0) + 1
        if r.nontrivial and r.status in ("ok", "violation"):
            h = case_hash(case)
            if h not in self.nontrivial:
                self.nontrivial.add(h)
                if len(self.samples) < 3:
                    c = canon(case)
                    self.samples.append(json.loads(c) if len(c) < 6000 else c[:6000] + "...")
        if r.status == "violation":
            size = len(canon(case))
            v = self.viol.setdefault(r.sig, {"count": 0, "size": 1 << 60})
            v["count"] += 1
            if size < v["size"]:
                v.update(size=size, case=json.loads(canon(case)), detail=r.detail)

    def dump(self):
        return {
            "evals": self.evals,
            "status": self.status,
            "labels": self.labels,
            "nontrivial": sorted(self.nontrivial),
            "samples": self.samples,
            "viol": self.viol,
            "inconclusive": self.inconclusive,
        }


def _settings(n, phases):
    from hypothesis import HealthCheck, settings

    return settings(
        max_examples=n,
        database=None,
        deadline=None,
        derandomize=False,
        phases=phases,
        suppress_health_check=list(HealthCheck),
        report_multiple_bugs=False,
        print_blob=False,
    )


def survey(comp, n, seed_val, deadline, stats):
    from hypothesis import Phase, given, seed

    @seed(seed_val)
    @_settings(n, (Phase.generate,))
    @given(comp.strategy())
    def t(case):
        if time.time() > deadline:
            raise StopRun()
        stats.record(case, run_check(comp, case))

    try:
        t()
    except StopRun:
        stats.inconclusive = True


def shrink(comp, n, seed_val, sig, budget_s, fallback):
    """Re-run the same seeded search failing only on `sig`, letting Hypothesis shrink it."""
    from hypothesis import Phase, given, seed

    state = {"last": None, "best": None, "best_size": 1 << 60}
    t_end = time.time() + budget_s

    @seed(seed_val)
    @_settings(n, (Phase.generate, Phase.shrink))
    @given(comp.strategy())
    def t(case):
        if time.time() > t_end:
            raise StopRun()
        r = run_check(comp, case)
        if r.status == "violation" and r.sig == sig:
            c = json.loads(canon(case))
            size = len(canon(case))
            state["last"] = (c, r.detail)
            if size < state["best_size"]:
                state["best"], state["best_size"] = (c, r.detail), size
            raise AssertionError(sig)

    finished = False
    try:
        t()
    except StopRun:
        pass
    except HarnessError:
        raise
    except BaseException:  # noqa: BLE001  AssertionError / Flaky / etc.
        finished = True
    pick = state["last"] if finished and state["last"] is not None else state["best"]
    if pick is None:
        return fallback
    return {"case": pick[0], "detail": pick[1], "shrunk": finished}


def run(job):
    t0 = time.time()
    out = {"job": job, "error": None}
    try:
        mod = load_property(job["pid"])
        stats = Stats(job.get("known_sigs", ()))
        if job["kind"] == "fuzz":
            import shutil
            import subprocess
            import tempfile

            wd = tempfile.mkdtemp(prefix="vverif_fuzz_")
            try:
                outp = os.path.join(wd, "out.json")
                p = subprocess.run([sys.executable, "-m", "vverif.fuzz", job["pid"], job["component"].split("@")[0], str(job["n"]), str(job["seed"]),
                                    outp, os.path.join(wd, "corpus")], stdout=subprocess.PIPE, stderr=subprocess.STDOUT, text=True,
                                   timeout=max(60, job["deadline"] - time.time()))
                if os.path.exists(outp):
                    d = json.load(open(outp))
                    if "skipped" in d:
                        out["stats"] = Stats().dump()
                        out["stats"]["labels"] = {"atheris-skipped": 1}
                    else:
                        for v in d.get("viol", {}).values():
                            v["seed"], v["n"] = None, None
                        out["stats"] = {k: d[k] for k in ("evals", "status", "labels", "nontrivial", "samples", "viol", "inconclusive")}
                else:
                    out["error"] = f"fuzz driver produced no output (rc={p.returncode}): {p.stdout[-1500:]}"
            except subprocess.TimeoutExpired:
                out["stats"] = Stats().dump()
                out["stats"]["inconclusive"] = True
            finally:
                shutil.rmtree(wd, ignore_errors=True)
        elif job["kind"] == "shrink":
            comp = {c.name: c for c in mod.COMPONENTS}[job["component"]]
            out["shrink"] = shrink(comp, job["n"], job["seed"], job["sig"], job["shrink_budget_s"], None)
        elif job["kind"] == "regress":
            comps = {c.name: c for c in mod.COMPONENTS}
            files = sorted(glob.glob(os.path.join(HERE, "regress", job["pid"], "*.json")))
            for f in files:
                d = json.load(open(f))
                comp = comps.get(d.get("component"))
                if comp is None:
                    raise HarnessError(f"regress file {f}: unknown component {d.get('component')}")
                r = run_check(comp, d["case"])
                r.labels = tuple(r.labels) + ("regress",)
                if r.status == "violation":
                    r.detail = f"[regress {os.path.basename(f)}] " + r.detail
                stats.record(d["case"], r)
            out["stats"] = stats.dump()
        else:
            comp = {c.name: c for c in mod.COMPONENTS}[job["component"]]
            if job["kind"] == "enumerate":
                for i, case in enumerate(comp.enumerate(job["tier"])):
                    if i % job["nshards"] != job["shard"]:
                        continue
                    if time.time() > job["deadline"]:
                        stats.inconclusive = True
                        break
                    stats.record(case, run_check(comp, case))
            else:
                survey(comp, job["n"], job["seed"], job["deadline"], stats)
                for v in stats.viol.values():
                    v["seed"], v["n"] = job["seed"], job["n"]
            out["stats"] = stats.dump()
    except HarnessError as e:
        out["error"] = f"HarnessError: {e}"
    except BaseException as e:  # noqa: BLE001
        out["error"] = "".join(traceback.format_exception(e))[-4000:]
    out["wall_s"] = time.time() - t0
    return out


def init():
    """Pool initialiser: pay the heavy imports once per worker process."""
    import vopy  # noqa: F401
    import hypothesis  # noqa: F401
