"""Strategies for run cases (algorithm-level properties)."""
from __future__ import annotations

import math

import numpy as np
from hypothesis import strategies as st

from vverif import gen
from vverif.gen_regions import interior_dir
from vverif.harness import data as hdata
from vverif.oracles import geom


def cone_matrix(spec):
    if spec["kind"] in ("W", "diag"):
        return gen.cone_W(spec)
    return np.asarray(gen.make_order(spec).ordering_cone.W, float)


@st.composite
def st_values(draw, K, W, eps):
    """Objective vectors with ties, near-duplicates and gaps engineered around eps."""
    Kf, m = W.shape
    al, _, _ = geom.cone_alpha(W / np.linalg.norm(W, axis=1)[:, None])
    Wn = W / np.linalg.norm(W, axis=1)[:, None]
    ustar = interior_dir(W)
    pts = [[round(draw(st.floats(-0.5, 0.5)), 3) for _ in range(m)]]
    while len(pts) < K:
        ref = np.array(pts[draw(st.integers(0, len(pts) - 1))])
        mode = draw(st.sampled_from(["gap", "gap", "gap", "dup", "near", "free", "incomparable"]))
        if mode == "dup":
            p = ref
        elif mode == "near":
            p = ref + np.array([draw(st.floats(-0.02, 0.02)) for _ in range(m)]) * eps
        elif mode == "free":
            p = np.array([draw(st.floats(-1.5, 1.5)) for _ in range(m)])
        elif mode == "incomparable":
            r = np.array([draw(st.floats(-1, 1)) for _ in range(m)])
            r = r - (r @ ustar) * ustar
            p = ref + r * draw(st.floats(0.2, 3.0)) * eps
        else:
            d = ustar + draw(st.floats(0, 0.8)) * np.array([draw(st.floats(-1, 1)) for _ in range(m)])
            if np.min(Wn @ d) <= 1e-6:
                d = ustar
            d = d / np.linalg.norm(d)
            g1 = float(np.min((Wn @ d) / al))
            f = draw(st.sampled_from([0.5, 0.9, 0.99, 1.01, 1.1, 1.3, 2.0, 4.0]))
            sign = draw(st.sampled_from([-1, -1, 1]))
            p = ref + sign * d * f * eps / g1
        pts.append([float(x) for x in p])
    return pts


@st.composite
def st_stub(draw, m):
    n = draw(st.integers(6, 16))
    vtab = []
    for _ in range(n):
        kind = draw(st.sampled_from(["corner", "corner", "free", "zero"]))
        if kind == "corner":
            vtab.append([float(draw(st.sampled_from([-1, 1]))) for _ in range(m)])
        elif kind == "zero":
            vtab.append([0.0] * m)
        else:
            vtab.append([round(draw(st.floats(-1, 1)), 3) for _ in range(m)])
    return {
        "A": [[round(draw(st.floats(-1, 1)), 2) for _ in range(m * m)] for _ in range(draw(st.integers(1, 3)))],
        "diag": [[draw(gen.st_logfloat(0.01, 1.0)) for _ in range(m)] for _ in range(draw(st.integers(1, 3)))],
        "cov_scale": draw(gen.st_logfloat(1e-3, 3.0)),
        "corr": draw(st.sampled_from([0.0, 0.3, 1.0])),
        "rho": draw(st.sampled_from([0.5, 0.7, 0.85, 0.95])),
        "vtab": vtab,
        "var_ratio": [draw(st.sampled_from([1.0, 1.0, 4.0, 25.0, 100.0])) for _ in range(draw(st.integers(1, 6)))],
    }


def cone_for(algo, conf, draw, allow_Kgtm=True, dims=(2, 3)):
    raise NotImplementedError


def st_rescaled_cone(m, extra):
    return gen.st_rescaled_cone(m, extra)


@st.composite
def st_cone_for(draw, algo, conf, allow_Kgtm=True, m=None):
    if algo in ("EpsilonPAL", "Auer"):
        mm = m or draw(st.sampled_from([2, 2, 3]))
        return {"kind": "comp", "m": mm}
    mm = m or draw(st.sampled_from([2, 2, 2, 3]))
    # hyper-rectangular PaVeBa-family types take the K-vector eps*alpha as an objective-space shift: K = m only (F7)
    extra = 2 if (allow_Kgtm and not (conf == "rect" and algo in ("PaVeBaGP", "PaVeBaPartialGP"))) else 0
    if algo == "NaiveElimination" and draw(st.booleans()):
        return draw(gen.st_theta())
    opts = [gen.st_bundled(mm), gen.st_diag_cone(mm, extra)]
    if conf == "ell" and algo in ("PaVeBa", "PaVeBaGP", "PaVeBaPartialGP"):
        # cones whose facets have clearly different alpha: non-unit / redundant rows (dyadic, integer) and rescaled rows
        opts += [gen.st_dyadic_cone(mm, extra), gen.st_int_cone(mm, extra), st_rescaled_cone(mm, extra)]
    spec = draw(st.one_of(*opts))
    if extra == 0 and spec["kind"] == "ice":
        spec = {"kind": "c3d", "type": draw(st.sampled_from(["acute", "right", "obtuse"]))}
    return spec


@st.composite
def st_run_spec(draw, algo, source=None, K=None, conf=None, allow_Kgtm=True, m=None, batch_max=1, eps=None, contraction=None, cone=None):
    from vverif.harness.algos import conf_type

    spec = {"algo": algo}
    if algo == "PaVeBaGP":
        spec["conf"] = conf or draw(st.sampled_from(["IH", "DE"]))
    elif algo == "PaVeBaPartialGP":
        spec["conf"] = conf or draw(st.sampled_from(["hyperrectangle", "hyperellipsoid"]))
    ct = conf_type(spec)
    spec["cone"] = cone if cone is not None else draw(st_cone_for(algo, ct, allow_Kgtm, m))
    W = cone_matrix(spec["cone"])
    mm = W.shape[1]
    spec["eps"] = eps or float(f"{draw(gen.st_logfloat(0.05, 1.0)):.3g}")
    spec["delta"] = draw(st.sampled_from([0.05, 0.1, 0.3]))
    spec["noise_var"] = draw(st.sampled_from([0.001, 0.01, 0.05]))
    spec["contraction"] = contraction or draw(st.sampled_from([1, 4, 32]))
    Kn = K or draw(st.integers(2, 7 if ct == "rect" else 5))
    d = draw(st.integers(1, 3))
    spec["X"] = hdata.grid_inputs(Kn, d).tolist()
    spec["Y"] = draw(st_values(Kn, W, spec["eps"]))
    spec["seed"] = draw(st.integers(0, 2**31 - 1))
    if batch_max > 1 and algo in ("PaVeBaGP", "PaVeBaPartialGP", "VOGP", "EpsilonPAL", "DecoupledGP"):
        spec["batch"] = draw(st.integers(1, batch_max))
    srcs = {"PaVeBa": ["stub", "real"], "Auer": ["stub", "real"], "NaiveElimination": ["real"],
            "DecoupledGP": ["fast"]}.get(algo, ["stub", "fast"])
    spec["source"] = source or draw(st.sampled_from(srcs))
    if spec["source"] == "stub":
        spec["stub"] = draw(st_stub(mm))
        if ct == "ell" and algo in ("PaVeBaGP", "PaVeBaPartialGP"):
            # positively homogeneous as well: the whole problem (values, eps, noise std, posterior std) scaled to 1e-4, where
            # posterior covariances have entries around 1e-8 and below
            unit = draw(st.sampled_from([1.0, 1.0, 1e-4, 1e-4]))
            if unit != 1.0:
                spec["unit"] = unit
                spec["Y"] = [[float(y * unit) for y in row] for row in spec["Y"]]
                spec["eps"] = float(spec["eps"] * unit)
                spec["noise_var"] = float(spec["noise_var"] * unit * unit)
                spec["stub"]["cov_scale"] = float(spec["stub"]["cov_scale"] * unit * unit)
        if ct == "rect":
            # the algorithms' decisions depend on differences of objective values only: sometimes place the whole
            # problem far from the origin (box comparisons are pure floating point, so the 1e-11 band still applies)
            off = draw(st.sampled_from([0, 0, 0, 1000, 100000, 100000]))
            if off:
                sg = [draw(st.sampled_from([1, -1])) for _ in range(mm)]
                spec["y_offset"] = [s_ * float(off) for s_ in sg]
                spec["Y"] = [[float(y + o) for y, o in zip(row, spec["y_offset"])] for row in spec["Y"]]
    if spec["source"] == "fast":
        ls = draw(st.sampled_from([0.3, 0.6, 1.5]))
        os_ = draw(st.sampled_from([0.5, 1.0, 2.0]))
        from vverif.harness.algos import default_hyp

        kind = {"PaVeBaGP": "ind" if spec.get("conf", "IH") == "IH" else "cor", "VOGP": "cor", "EpsilonPAL": "ind",
                "PaVeBaPartialGP": "list", "DecoupledGP": "list"}[algo]
        spec["hyp"] = default_hyp(kind, d, mm, ls, os_)
    return spec
