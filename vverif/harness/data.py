"""Synthetic datasets injected at the seam VOPy already has: get_dataset_instance() looks a class
up by name in vopy.datasets.dataset's module namespace."""
from __future__ import annotations

import itertools

import numpy as np

_counter = itertools.count()


def make_dataset_class(in_data, out_data):
    from vopy.datasets import Dataset

    in_arr = np.array(in_data, float)
    out_arr = np.array(out_data, float)

    class SyntheticDataset(Dataset):
        _in_dim = in_arr.shape[1]
        _out_dim = out_arr.shape[1]
        _cardinality = len(in_arr)

        def __init__(self):  # no rescaling: the engineered values ARE the true means
            self.in_data = in_arr.copy()
            self.out_data = out_arr.copy()
            self.in_dim = in_arr.shape[1]
            self.out_dim = out_arr.shape[1]

    return SyntheticDataset


def register_dataset(in_data, out_data) -> str:
    import vopy.datasets.dataset as dmod

    name = f"VerifSynthetic{next(_counter)}"
    cls = make_dataset_class(in_data, out_data)
    cls.__name__ = name
    setattr(dmod, name, cls)
    return name


def unregister_dataset(name):
    import vopy.datasets.dataset as dmod

    if hasattr(dmod, name):
        delattr(dmod, name)


def grid_inputs(K, d):
    """K distinct, well separated points of [0,1]^d (deterministic low-discrepancy layout)."""
    pr = [2, 3, 5, 7][:d]
    pts = np.zeros((K, d))
    for i in range(K):
        for j, p in enumerate(pr):
            f, r, n = 1.0, 0.0, i + 1
            while n > 0:
                f /= p
                r += f * (n % p)
                n //= p
            pts[i, j] = r
    return pts
