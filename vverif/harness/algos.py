"""Run harness for the algorithm-level properties (C01-C03, C05-C07, C18).

Algorithms are built through their public constructors.  Two collaborators are substituted at seams
the code already has: the model factory name imported by the algorithm module (fast: real model class
with generated hyper-parameters instead of training; stub: adversarial posterior) and, for the bandit
algorithms, the public `model` attribute.  `problem.evaluate` is wrapped by a recording proxy and
`design_space.update` by an instance-level wrapper that tells the stub which scale is being applied.
"""
from __future__ import annotations

import contextlib
import importlib

import numpy as np

from vverif import gen
from vverif.harness import data as hdata
from vverif.harness import models as hm

FACTORY = {
    "PaVeBaGP": ("vopy.algorithms.paveba_gp", "get_gpytorch_model_w_known_hyperparams"),
    "VOGP": ("vopy.algorithms.vogp", "get_gpytorch_model_w_known_hyperparams"),
    "EpsilonPAL": ("vopy.algorithms.epal", "get_gpytorch_model_w_known_hyperparams"),
    "VOGP_AD": ("vopy.algorithms.vogp_ad", "get_gpytorch_model_w_known_hyperparams"),
    "PaVeBaPartialGP": ("vopy.algorithms.paveba_partial_gp", "get_gpytorch_modellist_w_known_hyperparams"),
    "DecoupledGP": ("vopy.algorithms.decoupled", "get_gpytorch_modellist_w_known_hyperparams"),
}
ELIMINATING = ("PaVeBa", "PaVeBaGP", "PaVeBaPartialGP", "VOGP", "VOGP_AD", "EpsilonPAL", "Auer")


def conf_type(spec):
    a = spec["algo"]
    if a == "PaVeBa":
        return "ell"
    if a == "PaVeBaGP":
        return "ell" if spec.get("conf", "IH") == "DE" else "rect"
    if a == "PaVeBaPartialGP":
        return "ell" if spec.get("conf", "hyperrectangle") == "hyperellipsoid" else "rect"
    return "rect"


# --------------------------------------------------------------------------- adversarial stub posterior
class AdversarialStub:
    """Model-interface object whose prediction keeps the truth inside the region about to be displayed.

    mean_i = truth_i + v (.) scale (.) std_i   (hyper-rectangles, |v_k| <= 1)
    mean_i = truth_i + scale * chol(Sigma_i) v   (ellipsoids, ||v|| <= 1)
    Sigma_i shrinks geometrically with the number of updates and of samples of design i."""

    def __init__(self, points, truth, conf, base_cov, rho, vtab, mode="gp", var_ratio=None):
        self.points = np.asarray(points, float)
        self.truth = np.asarray(truth, float)
        self.K, self.output_dim = self.truth.shape
        self.input_dim = self.points.shape[1]
        self.conf = conf
        self.base_cov = np.asarray(base_cov, float)
        self.rho = rho
        self.vtab = [np.asarray(v, float) for v in vtab]
        self.n_updates = 0
        self.n_samples = np.zeros(self.K, int)
        self.data = []  # (design, y, objective-or-None)
        self.hint = None
        self.mode = mode  # gp | paveba | auer
        self.by_index = mode in ("paveba", "auer")  # those algorithms address designs by an index column
        self.track_variances = False
        self.track_means = True
        self.var_ratio = np.ones(self.K) if var_ratio is None else np.asarray(var_ratio, float)

    # ----- Model interface
    def locate(self, X):
        X = np.asarray(X, float)
        if X.ndim == 1:
            X = X.reshape(1, -1)
        X = X[:, : self.input_dim]
        return ((X[:, None, :] - self.points[None, :, :]) ** 2).sum(-1).argmin(axis=1)

    def add_sample(self, X_or_idx, Y, dim_index=None):
        if self.by_index:
            idx = [int(i) for i in X_or_idx]
        else:
            idx = self.locate(X_or_idx).tolist()
        Y = np.asarray(Y, float)
        for k, i in enumerate(idx):
            self.n_samples[i] += 1
            obj = None if dim_index is None else (int(dim_index) if np.ndim(dim_index) == 0 else int(dim_index[k]))
            self.data.append((i, np.array(Y[k], float).copy(), obj))

    def update(self):
        self.n_updates += 1

    def train(self):
        pass

    def clear_data(self):
        pass

    def cov(self, i):
        if self.mode == "auer":
            if not self.track_variances:
                return np.eye(self.output_dim)
            # per-design AND per-objective empirical variances (widths differ across designs and objectives)
            obj = np.array([1.0, 3.0, 0.4, 2.0])[: self.output_dim]
            return np.diag(self.var_ratio[i] * obj)
        # geometric shrinkage with a floor (std factor 1e-5): keeps the offsets representable next to the truth
        return self.base_cov[i] * max(self.rho ** (self.n_updates + 2 * self.n_samples[i]), 1e-10)

    def predict(self, X):
        idx = np.asarray(X, float)[:, -1].astype(int) if self.by_index else self.locate(X)
        idx = list(map(int, idx))
        covs = np.array([self.cov(i) for i in idx])
        means = self.truth[idx].copy()
        if self.hint is not None and list(self.hint[0]) == idx:
            sc = self.hint[1]
            for k, i in enumerate(idx):
                v = self.vtab[(self.n_updates * self.K + i) % len(self.vtab)][: self.output_dim]
                if self.conf == "rect":
                    s = np.broadcast_to(sc[k], (self.output_dim,))
                    means[k] = self.truth[i] + 0.999999 * np.clip(v, -1, 1) * s * np.sqrt(np.diag(covs[k]))
                else:
                    nv = np.linalg.norm(v)
                    if nv > 1:
                        v = v / nv
                    L = np.linalg.cholesky(covs[k])
                    means[k] = self.truth[i] + 0.999999 * float(np.asarray(sc[k]).reshape(-1)[0]) * (L @ v)
        return means, covs


def install_hint(algorithm, stub):
    ds = algorithm.design_space
    orig = ds.update

    def wrapped(model, scale, indices_to_update=None):
        idx = list(range(len(ds.points))) if indices_to_update is None else list(indices_to_update)
        sc = np.asarray(scale, float)
        if sc.ndim < 2:
            sc = np.repeat(np.atleast_1d(sc)[None, :], len(idx), axis=0)
        stub.hint = (idx, sc)
        try:
            return orig(model, scale, indices_to_update)
        finally:
            stub.hint = None

    ds.update = wrapped


# --------------------------------------------------------------------------- recording proxy
class Recorder:
    def __init__(self, problem):
        self.calls = []  # (x (n,d), evaluation_index or None, y)
        self._orig = problem.evaluate
        problem.evaluate = self

    def __call__(self, x, *a, **k):
        y = self._orig(x, *a, **k)
        ei = a[0] if a else k.get("evaluation_index")
        self.calls.append((np.array(x, float).copy(), None if ei is None else np.array(ei).copy(), np.array(y, float).copy()))
        return y

    @property
    def n_evals(self):
        return sum(len(np.atleast_2d(c[0])) for c in self.calls)


# --------------------------------------------------------------------------- construction
@contextlib.contextmanager
def patched_factory(algo, factory):
    if algo not in FACTORY or factory is None:
        yield
        return
    modname, attr = FACTORY[algo]
    mod = importlib.import_module(modname)
    old = getattr(mod, attr)
    setattr(mod, attr, factory)
    try:
        yield
    finally:
        setattr(mod, attr, old)


def default_hyp(kind, d, m, ls=0.6, os=1.0):
    if kind == "ind":
        return {"ls": [[ls] * d for _ in range(m)], "os": [os] * m}
    if kind == "cor":
        F = (np.eye(m) * 0.8 + 0.2).tolist()
        return {"ls": [ls] * d, "F": F, "v": [0.2] * m}
    return {"ls": [[ls] * d for _ in range(m)], "os": [os] * m, "c": [0.0] * m}


def make_fast_factory(spec, listmodel):
    """Real model classes, generated hyper-parameters, no marginal-likelihood training."""
    hyp = spec.get("hyp")

    def kind_of(model_class):
        n = model_class.__name__
        return "ind" if n.startswith("Independent") else "cor"

    if listmodel:
        def factory(problem, noise_var, initial_sample_cnt, X=None, Y=None):
            from vopy.models import GPyTorchModelListExactModel
            from vopy.utils import generate_sobol_samples

            if X is None:
                X = generate_sobol_samples(problem.in_dim, 16)
            if Y is None:
                Y = problem.evaluate(X)
            d, m = X.shape[1], Y.shape[1]
            model = GPyTorchModelListExactModel(d, m, noise_var=noise_var)
            model.update()
            hm.set_hypers(model, "list", hyp or default_hyp("list", d, m))
            if initial_sample_cnt > 0:
                sel = np.random.choice(len(X) * m, initial_sample_cnt)
                pts, objs = X[sel // m], sel % m
                vals = problem.evaluate(pts)
                model.add_sample(pts, vals[np.arange(initial_sample_cnt), objs], objs)
                model.update()
            return model
    else:
        def factory(model_class, problem, noise_var, initial_sample_cnt, X=None, Y=None):
            from vopy.utils import generate_sobol_samples

            if X is None:
                X = generate_sobol_samples(problem.in_dim, 16)
            if Y is None:
                Y = problem.evaluate(X)
            d, m = X.shape[1], Y.shape[1]
            kind = kind_of(model_class)
            model = model_class(d, m, noise_var=noise_var)
            sel = np.random.choice(len(X), max(1, initial_sample_cnt))
            model.add_sample(X[sel], Y[sel])
            model.update()
            hm.set_hypers(model, kind, hyp or default_hyp(kind, d, m))
            return model
    return factory


def make_continuous_problem(cs):
    """User-defined ContinuousProblem: cheap analytic objectives on [0,1]^d."""
    from vopy.maximization_problem import ContinuousProblem

    d, m = cs["d"], cs["m"]
    coef = np.array(cs["coef"], float).reshape(m, -1)

    class AnalyticProblem(ContinuousProblem):
        in_dim = d
        out_dim = m
        depth_max = cs["depth_max"]
        bounds = [(0.0, 1.0)] * d

        def evaluate_true(self, x):
            x = np.asarray(x, float)
            cols = []
            for j in range(m):
                a = coef[j]
                cols.append(a[0] * np.sin(a[1] * x[:, 0] * 3 + a[2]) + a[3] * x[:, -1] - a[4] * ((x - 0.3 * (j + 1)) ** 2).sum(axis=1))
            return np.stack(cols, axis=1)

    return AnalyticProblem(cs["noise_var"])


def build_ad(spec):
    import vopy.algorithms as A
    from vopy.utils import set_seed

    set_seed(spec.get("seed", 0))
    prob = make_continuous_problem(spec["problem"])
    order = gen.make_order(spec["cone"])
    with patched_factory("VOGP_AD", make_fast_factory(spec, False)):
        alg = A.VOGP_AD(spec["eps"], spec["delta"], prob, order, spec["problem"]["noise_var"], conf_contraction=spec["contraction"])
    ctx = type("Ctx", (), {})()
    ctx.stub, ctx.truth, ctx.X, ctx.conf, ctx.order, ctx.algo = None, None, None, "rect", order, "VOGP_AD"
    ctx.recorder = Recorder(alg.problem)
    ctx.refines = []
    ds = alg.design_space
    orig = ds.refine_design

    def refine(index_to_refine):
        children = orig(index_to_refine)
        ctx.refines.append((int(index_to_refine), [int(c) for c in children], int(alg.round)))
        return children

    ds.refine_design = refine
    return alg, ctx


def build(spec):
    """Construct the algorithm described by `spec`.  Returns (algorithm, ctx) with ctx.recorder, ctx.stub, ctx.truth ..."""
    import vopy.algorithms as A
    from vopy.utils import set_seed

    algo = spec["algo"]
    if algo == "VOGP_AD":
        return build_ad(spec)
    X = np.array(spec["X"], float)
    Y = np.array(spec["Y"], float)
    K, m = Y.shape
    set_seed(spec.get("seed", 0))
    order = gen.make_order(spec["cone"]) if algo not in ("EpsilonPAL", "Auer") else None
    src = spec.get("source", "real")
    conf = conf_type(spec)
    stub = None
    if src == "stub":
        st = spec["stub"]
        base = []
        for i in range(K):
            Am = np.array(st["A"][i % len(st["A"])], float)[: m * m].reshape(m, m)
            base.append(st["cov_scale"] * (Am @ Am.T * st.get("corr", 1.0) + np.diag(np.array(st["diag"][i % len(st["diag"])], float)[:m])))
        mode = {"Auer": "auer", "PaVeBa": "paveba"}.get(algo, "gp")
        vr = st.get("var_ratio")
        stub = AdversarialStub(X, Y, conf, base, st["rho"], st["vtab"], mode=mode,
                               var_ratio=None if vr is None else [vr[i % len(vr)] for i in range(K)])
    factory = None
    if algo in FACTORY:
        listmodel = FACTORY[algo][1].endswith("modellist_w_known_hyperparams")
        if src == "stub":
            factory = (lambda *a, **k: stub)
        elif src == "fast":
            factory = make_fast_factory(spec, listmodel)
    name = hdata.register_dataset(X, Y)
    try:
        with patched_factory(algo, factory):
            kw = dict(epsilon=spec["eps"], delta=spec["delta"], dataset_name=name, noise_var=spec["noise_var"])
            if algo == "PaVeBa":
                alg = A.PaVeBa(order=order, conf_contraction=spec["contraction"], **kw)
            elif algo == "PaVeBaGP":
                alg = A.PaVeBaGP(order=order, conf_contraction=spec["contraction"], type=spec.get("conf", "IH"),
                                 batch_size=spec.get("batch", 1), **kw)
            elif algo == "PaVeBaPartialGP":
                alg = A.PaVeBaPartialGP(order=order, conf_contraction=spec["contraction"], costs=spec.get("costs"),
                                        cost_budget=spec.get("budget"), confidence_type=spec.get("conf", "hyperrectangle"),
                                        batch_size=spec.get("batch", 1), **kw)
            elif algo == "VOGP":
                alg = A.VOGP(order=order, conf_contraction=spec["contraction"], batch_size=spec.get("batch", 1), **kw)
            elif algo == "EpsilonPAL":
                alg = A.EpsilonPAL(conf_contraction=spec["contraction"], batch_size=spec.get("batch", 1), **kw)
            elif algo == "Auer":
                alg = A.Auer(conf_contraction=spec["contraction"], use_empirical_beta=spec.get("empirical", False), **kw)
            elif algo == "NaiveElimination":
                alg = A.NaiveElimination(spec["eps"], spec["delta"], name, order, spec["noise_var"], L=spec.get("L"))
            elif algo == "DecoupledGP":
                alg = A.DecoupledGP(name, order, spec["noise_var"], spec["budget"], spec["costs"], batch_size=spec.get("batch", 1))
            else:
                raise ValueError(algo)
    finally:
        hdata.unregister_dataset(name)
    if src == "stub" and algo in ("PaVeBa", "Auer"):
        stub.track_variances = bool(getattr(alg.model, "track_variances", False))
        alg.model = stub
    if stub is not None:
        install_hint(alg, stub)
    if spec.get("het_noise") and hasattr(alg, "problem"):
        _install_heteroscedastic(alg, spec["het_noise"], X)
    ctx = type("Ctx", (), {})()
    ctx.stub, ctx.truth, ctx.X, ctx.conf, ctx.order = stub, Y, X, conf, getattr(alg, "order", order)
    ctx.recorder = Recorder(alg.problem)
    ctx.algo = algo
    return alg, ctx


def _install_heteroscedastic(alg, levels, X):
    """Per-design noise levels: wrap the dataset problem's evaluate (instance attribute)."""
    prob = alg.problem
    base = prob.problem if hasattr(prob, "problem") else prob
    orig = base.evaluate
    lv = np.asarray(levels, float)

    def evaluate(x, noisy=True, **k):
        f = orig(x, noisy=False)
        if not noisy:
            return f
        xx = np.asarray(x, float).reshape(len(f), -1)
        idx = ((xx[:, None, :] - X[None, :, :]) ** 2).sum(-1).argmin(1)
        return f + np.random.normal(size=f.shape) * np.sqrt(lv[idx % len(lv)])[:, None]

    base.evaluate = evaluate


# --------------------------------------------------------------------------- snapshots / traces
def regions_of(alg, conf):
    out = []
    for r in alg.design_space.confidence_regions:
        if conf == "rect":
            out.append((np.array(r.lower, float).copy(), np.array(r.upper, float).copy()))
        else:
            out.append((np.array(r.center, float).copy(), np.array(r.sigma, float).copy(), float(np.asarray(r.alpha))))
    return out


def model_data(alg):
    mdl = getattr(alg, "model", None)
    if mdl is None:
        return None
    if isinstance(mdl, AdversarialStub):
        return ("stub", len(mdl.data))
    if hasattr(mdl, "design_samples"):
        return ("emp", [np.array(s, float).copy() for s in mdl.design_samples])
    ti, tt = mdl.train_inputs, mdl.train_targets
    if isinstance(ti, list):
        return ("list", [(x.detach().numpy().copy(), y.detach().numpy().copy()) for x, y in zip(ti, tt)])
    return ("gp", (ti.detach().numpy().copy(), tt.detach().numpy().copy()))


def snapshot(alg, ctx):
    s = {
        "S": set(map(int, alg.S)) if hasattr(alg, "S") else None,
        "P": set(map(int, np.asarray(list(alg.P)).reshape(-1))) if hasattr(alg, "P") else None,
        "U": set(map(int, alg.U)) if hasattr(alg, "U") else None,
        "round": int(alg.round),
        "sample_count": int(alg.sample_count),
        "total_cost": float(alg.total_cost) if hasattr(alg, "total_cost") else None,
        "n_calls": len(ctx.recorder.calls),
        "n_evals": ctx.recorder.n_evals,
    }
    if hasattr(alg, "design_space"):
        s["regions"] = regions_of(alg, ctx.conf)
        s["n_points"] = len(alg.design_space.points)
    s["model"] = model_data(alg)
    return s


def truth_inside(region, mu, conf):
    """Validity monitor (closed form, independent of the stub)."""
    mu = np.asarray(mu, float)
    if conf == "rect":
        lo, up = region
        tol = 1e-9 * max(1.0, float(np.abs(mu).max()), float(np.abs(up - lo).max()))
        return bool(np.all(mu >= lo - tol) and np.all(mu <= up + tol))
    c, S, a = region
    d = mu - c
    # the centre is stored as truth + offset in floating point: forgive a few ulps of |mu| in the distance
    slack = 16 * np.finfo(float).eps * max(1.0, float(np.abs(mu).max()))
    nd = float(np.linalg.norm(d))
    if nd <= slack:
        return True
    d = d * (1 - slack / nd)
    q = float(d @ np.linalg.solve(S, d))
    return q <= a * a * (1 + 1e-6) + 1e-300


def run(spec, max_steps=120, extra_steps=0, on_step=None):
    """Run to completion (or the step cap).  Returns (alg, ctx, trace) where trace is a list of dicts
    {before, after, done, error}.  Exceptions from run_one_step are captured in the last record."""
    alg, ctx = build(spec)
    trace = []
    done = False
    steps = 0
    extra = 0
    while steps < max_steps:
        before = snapshot(alg, ctx)
        rec = {"before": before, "done_before": done}
        try:
            flag = alg.run_one_step()
        except Exception as e:  # noqa: BLE001
            rec["error"] = e
            trace.append(rec)
            break
        rec["after"] = snapshot(alg, ctx)
        rec["flag"] = bool(flag)
        trace.append(rec)
        if on_step is not None:
            on_step(alg, ctx, rec)
        steps += 1
        if done:
            extra += 1
            if extra >= extra_steps:
                break
        elif flag:
            done = True
            if extra_steps == 0:
                break
    ctx.completed = done
    return alg, ctx, trace
