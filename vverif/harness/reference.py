"""Reference transition T: the sets after a step recomputed from the sets before it and the regions
displayed after it, with the independent geometry oracles (tri-state: True / False / None = inside
the numerical band)."""
from __future__ import annotations

import itertools

import numpy as np

from vverif.oracles import geom


def _scale(*regs):
    v = [1e-300]
    for r in regs:
        if len(r) == 2:
            v += [float(np.abs(r[0]).max()), float(np.abs(r[1]).max())]
        else:
            v += [float(np.abs(r[0]).max()), float(r[2] * np.sqrt(np.max(np.diag(r[1]))))]
    return max(v)


def tri(margin_lb, margin_ub, tau):
    if margin_lb > tau:
        return True
    if margin_ub < -tau:
        return False
    return None


def any3(vals):
    out = False
    for v in vals:
        if v is True:
            return True
        if v is None:
            out = None
    return out


class Preds:
    """Predicates over displayed regions (regs: list indexed by design)."""

    def __init__(self, W, conf, regs):
        self.W = np.asarray(W, float)
        self.nrm = np.linalg.norm(self.W, axis=1)
        self.Wn = self.W / self.nrm[:, None]
        self.conf = conf
        self.regs = regs
        self.cache = {}
        self.min_abs_margin = np.inf  # closest decision to its boundary, relative to scale

    def _note(self, lb, ub, sc):
        self.min_abs_margin = min(self.min_abs_margin, min(abs(lb), abs(ub)) / sc)

    def dom(self, x, y, slack):
        """region x is dominated by region y helped by slack (forall-forall)."""
        key = ("dom", x, y, np.asarray(slack, float).tobytes())
        if key in self.cache:
            return self.cache[key]
        r1, r2 = self.regs[x], self.regs[y]
        K, m = self.W.shape
        if self.conf == "rect":
            s = np.broadcast_to(np.asarray(slack, float), (m,))
            lo, hi = r2[0] - r1[1], r2[1] - r1[0]
            mg = float(((geom.box_min_facet(self.W, lo, hi) + self.W @ s) / self.nrm).min())
            sc = max(_scale(r1, r2), float(np.abs(s).max()))
            tau = 1e-11 * sc
        else:
            s = np.broadcast_to(np.asarray(slack, float).reshape(-1), (K,)) if np.size(slack) != K else np.asarray(slack, float).reshape(K)
            mgs = geom.ell_dominated_margins(self.W, r1[0], r1[1], r1[2], r2[0], r2[1], r2[2], s)
            mg = float((mgs / self.nrm).min())
            sc = max(_scale(r1, r2), float(np.abs(s).max()))
            tau = 2e-7 + 2e-6 * sc
        self._note(mg, mg, sc)
        res = tri(mg, mg, tau)
        self.cache[key] = res
        return res

    def cov(self, x, y, slack):
        """region x can be covered by region y by the slack (exists-exists)."""
        key = ("cov", x, y, np.asarray(slack, float).tobytes())
        if key in self.cache:
            return self.cache[key]
        r1, r2 = self.regs[x], self.regs[y]
        K, m = self.W.shape
        if self.conf == "rect":
            s = np.broadcast_to(np.asarray(slack, float), (m,))
            lb, ub, _ = geom.box_cone_margin(self.W, r2[0] - r1[1], r2[1] - r1[0], s)
        else:
            s = np.broadcast_to(np.asarray(slack, float).reshape(-1), (K,)) if np.size(slack) != K else np.asarray(slack, float).reshape(K)
            lb, ub = geom.ell_cover_margin(self.Wn, r1[0], r1[1], r1[2], r2[0], r2[1], r2[2], s / self.nrm)
        sc = max(_scale(r1, r2), float(np.abs(np.asarray(slack, float)).max()))
        self._note(lb, ub, sc)
        res = tri(lb, ub, 1e-9 + 1e-3 * sc)
        self.cache[key] = res
        return res

    def pdom(self, y, x):
        """rectangle y pessimistically dominates rectangle x (every point of y dominates some point of x)."""
        key = ("pdom", y, x)
        if key in self.cache:
            return self.cache[key]
        r1, r2 = self.regs[y], self.regs[x]
        lbs, ubs = [], []
        for v in itertools.product(*zip(r1[0], r1[1])):
            v = np.array(v)
            lb, ub, _ = geom.box_cone_margin(self.W, v - r2[1], v - r2[0], None)
            lbs.append(lb)
            ubs.append(ub)
        sc = _scale(r1, r2)
        self._note(min(lbs), min(ubs), sc)
        res = tri(min(lbs), min(ubs), 1e-9 * sc)
        self.cache[key] = res
        return res


def ref_paveba(S, P, U, pr, slack):
    """PaVeBa family.  Returns dict(D, N, U2) of sets, or None entries when indeterminate."""
    A = set(S) | set(U)
    Dm = {x: any3(pr.dom(x, y, 0.0) for y in A if y != x) for x in S}
    if any(v is None for v in Dm.values()):
        return {"D": None, "N": None, "U": None}
    D = {x for x, v in Dm.items() if v}
    S1 = set(S) - D
    A1 = S1 | set(U)
    Nm = {x: any3(pr.cov(x, y, slack) for y in A1 if y != x) for x in S1}
    if any(v is None for v in Nm.values()):
        return {"D": D, "N": None, "U": None}
    N = {x for x, v in Nm.items() if v is False}
    P2 = set(P) | N
    S2 = S1 - N
    Um = {p: any3(pr.cov(s, p, slack) for s in S2) for p in P2}
    if any(v is None for v in Um.values()):
        return {"D": D, "N": N, "U": None}
    return {"D": D, "N": N, "U": {p for p, v in Um.items() if v}}


def ref_vogp(S, P, pr, slack, order=None, exact_pdom=True, covering_enabled=True):
    """VOGP / VOGP_AD / eps-PAL.  exact_pdom False: the pessimistic set is taken from the code's own
    comparison (claimed complete only for two-facet 2-D cones, C11)."""
    Wset = set(S) | set(P)
    if exact_pdom:
        pm = {x: any3(pr.pdom(y, x) for y in Wset if y != x) for x in Wset}
        if any(v is None for v in pm.values()):
            return {"D": None, "N": None, "PS": None}
        PS = {x for x, v in pm.items() if v is False}
    else:
        from vopy.confidence_region import RectangularConfidenceRegion, confidence_region_check_dominates

        R = {i: RectangularConfidenceRegion(len(pr.regs[i][0]), pr.regs[i][0], pr.regs[i][1]) for i in Wset}
        PS = {x for x in Wset if not any(confidence_region_check_dominates(order, R[y], R[x]) for y in Wset if y != x)}
    Dm = {x: any3(pr.dom(x, y, slack) for y in PS) for x in set(S) - PS}
    if any(v is None for v in Dm.values()):
        return {"D": None, "N": None, "PS": PS}
    D = {x for x, v in Dm.items() if v}
    S1 = set(S) - D
    if not covering_enabled:
        return {"D": D, "N": set(), "PS": PS}
    W1 = S1 | set(P)
    Nm = {x: any3(pr.cov(x, y, slack) for y in W1 if y != x) for x in S1}
    if any(v is None for v in Nm.values()):
        return {"D": D, "N": None, "PS": PS}
    return {"D": D, "N": {x for x, v in Nm.items() if v is False}, "PS": PS}


def ref_auer(S, P, regs, eps):
    """Auer with each design's own displayed half-widths.  Comparisons within 1e-12 relative are indeterminate."""
    c = {i: (regs[i][0] + regs[i][1]) / 2 for i in S}
    w = {i: (regs[i][1] - regs[i][0]) / 2 for i in S}
    indet = [False]

    def cmp_all(lhs, rhs, strict_gt=False, lt=False, le=False):
        # lhs scalar vs rhs vector, all components
        sc = max(1.0, abs(lhs), float(np.abs(rhs).max()))
        if np.any(np.abs(lhs - rhs) <= 1e-12 * sc):
            indet[0] = True
        if strict_gt:
            return bool(np.all(lhs > rhs))
        if lt:
            return bool(np.all(lhs < rhs))
        return bool(np.all(lhs <= rhs))

    def small_m(i, j):
        return max(0.0, float(np.min(c[j] - c[i])))

    def big_m(i, j):
        return max(0.0, float(np.max(c[i] + eps - c[j])))

    D = {i for i in S if any(cmp_all(small_m(i, j), w[i] + w[j], strict_gt=True) for j in S if j != i)}
    S1 = [i for i in S if i not in D]
    P1 = [i for i in S1 if not any(cmp_all(big_m(i, j), w[i] + w[j], lt=True) for j in S1 if j != i)]
    N = {p for p in P1 if not any(cmp_all(big_m(j, p), w[p] + w[j], le=True) for j in S1 if j not in P1)}
    if indet[0]:
        return {"D": None, "N": None, "P1": None}
    return {"D": D, "N": N, "P1": set(P1)}
