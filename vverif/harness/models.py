"""GP model helpers: build VOPy's model classes, set / read hyper-parameters, closed-form reference."""
from __future__ import annotations

import numpy as np

from vverif.oracles import gp as gpo


def new_model(kind, d, m, noise):
    from vopy.models import (
        CorrelatedExactGPyTorchModel,
        GPyTorchModelListExactModel,
        IndependentExactGPyTorchModel,
    )

    nv = noise if np.ndim(noise) == 0 else np.array(noise, float)
    if kind == "ind":
        return IndependentExactGPyTorchModel(d, m, nv)
    if kind == "cor":
        return CorrelatedExactGPyTorchModel(d, m, nv)
    return GPyTorchModelListExactModel(d, m, nv)


def set_hypers(model, kind, hyp):
    """Assign generated hyper-parameters (model.model must exist: call update() once before)."""
    import torch

    gp = model.model
    gp.train()  # drops gpytorch's cached prediction strategy
    with torch.no_grad():
        if kind == "ind":
            m, d = np.array(hyp["ls"]).shape
            gp.covar_module.base_kernel.lengthscale = torch.tensor(hyp["ls"], dtype=torch.float64).reshape(m, 1, d)
            gp.covar_module.outputscale = torch.tensor(hyp["os"], dtype=torch.float64)
        elif kind == "cor":
            d = len(hyp["ls"])
            gp.covar_module.data_covar_module.lengthscale = torch.tensor(hyp["ls"], dtype=torch.float64).reshape(1, d)
            tk = gp.covar_module.task_covar_module
            tk.covar_factor.data = torch.tensor(hyp["F"], dtype=torch.float64)
            tk.var = torch.tensor(hyp["v"], dtype=torch.float64)
        else:
            for j, sub in enumerate(gp.models):
                d = len(hyp["ls"][j])
                sub.covar_module.base_kernel.lengthscale = torch.tensor(hyp["ls"][j], dtype=torch.float64).reshape(1, d)
                sub.covar_module.outputscale = torch.tensor(hyp["os"][j], dtype=torch.float64)
                sub.mean_module.constant = torch.tensor(hyp["c"][j], dtype=torch.float64)
    gp.eval()
    model.update()


def read_hypers(model, kind):
    """Hyper-parameters as the kernel modules hold them (used for trained models)."""
    gp = model.model
    f = lambda t: t.detach().cpu().numpy().astype(float)  # noqa: E731
    if kind == "ind":
        ls = f(gp.covar_module.base_kernel.lengthscale)
        return {"ls": ls.reshape(ls.shape[0], ls.shape[-1]).tolist(), "os": f(gp.covar_module.outputscale).reshape(-1).tolist()}
    if kind == "cor":
        tk = gp.covar_module.task_covar_module
        return {"ls": f(gp.covar_module.data_covar_module.lengthscale).reshape(-1).tolist(),
                "F": f(tk.covar_factor).tolist(), "v": f(tk.var).reshape(-1).tolist()}
    return {"ls": [f(s.covar_module.base_kernel.lengthscale).reshape(-1).tolist() for s in gp.models],
            "os": [float(f(s.covar_module.outputscale)) for s in gp.models],
            "c": [float(f(s.mean_module.constant)) for s in gp.models]}


def reference(kind, hyp, noise, data, Xs):
    """Closed-form posterior for the data snapshot.

    data: ind/cor -> (X (n,d), Y (n,m)); list -> [(X_j, y_j)] per objective.
    Returns mean (N,m), cov (N,m,m) (independent / list: what VOPy reports = diagonal only)."""
    Xs = np.asarray(Xs, float)
    if kind == "ind":
        m = len(hyp["os"])
        mean, cov = gpo.joint_posterior(data[0], data[1], Xs, gpo.independent_kfun(hyp["ls"], hyp["os"]), noise, np.zeros(m))
        return mean, np.stack([np.diag(np.diag(c)) for c in cov])
    if kind == "cor":
        F = np.array(hyp["F"], float)
        B = F @ F.T + np.diag(hyp["v"])
        return gpo.joint_posterior(data[0], data[1], Xs, gpo.correlated_kfun(hyp["ls"], B), noise, np.zeros(len(B)))
    m = len(hyp["os"])
    mean = np.zeros((len(Xs), m))
    cov = np.zeros((len(Xs), m, m))
    for j in range(m):
        mu, var = gpo.single_posterior(data[j][0], data[j][1], Xs, hyp["ls"][j], hyp["os"][j], float(noise), hyp["c"][j])
        mean[:, j] = mu
        cov[:, j, j] = var
    return mean, cov


def snapshot(model, kind):
    """Training data the wrapper reports (copied)."""
    f = lambda t: t.detach().cpu().numpy().astype(float).copy()  # noqa: E731
    if kind in ("ind", "cor"):
        return f(model.train_inputs), f(model.train_targets)
    return [(f(x), f(y)) for x, y in zip(model.train_inputs, model.train_targets)]
