"""Core data types shared by the runner, the shard worker and the property modules."""
from __future__ import annotations

import hashlib
import json
import os
import traceback
from dataclasses import dataclass, field
from typing import Any, Callable, Iterable, Optional

REPO = os.environ.get("VERIF_REPO", "/repo")
HERE = os.path.dirname(os.path.dirname(os.path.abspath(__file__)))


class HarnessError(Exception):
    """Raised when the harness itself (oracle self-check, missing solver) is at fault."""


@dataclass
class Result:
    status: str = "ok"  # ok | violation | skip | indet
    labels: tuple = ()
    nontrivial: bool = False
    sig: str = ""
    detail: str = ""

    @staticmethod
    def ok(labels=(), nontrivial=False):
        return Result("ok", tuple(labels), nontrivial)

    @staticmethod
    def violation(sig, detail="", labels=(), nontrivial=True):
        return Result("violation", tuple(labels), nontrivial, sig, detail)

    @staticmethod
    def skip(labels=()):
        return Result("skip", tuple(labels), False)

    @staticmethod
    def indet(labels=()):
        return Result("indet", tuple(labels), False)


@dataclass
class Component:
    """One generated-input search: strategy + oracle + budgets.

    strategy: zero-arg callable returning a Hypothesis strategy of JSON-serialisable cases
    check:    case -> Result
    enumerate: optional tier -> iterable of cases (finite domains, enumerated exhaustively)
    """

    name: str
    check: Callable[[Any], Result]
    strategy: Optional[Callable[[], Any]] = None
    quick: int = 200
    thorough: int = 5000
    enumerate: Optional[Callable[[str], Iterable[Any]]] = None
    max_shards: int = 32
    fuzz_runs: int = 0  # >0: thorough tier also runs an atheris campaign of this many executions per shard (8 shards)
    rule: str = ""


def canon(case) -> str:
    return json.dumps(case, sort_keys=True, separators=(",", ":"), default=_json_default)


def _json_default(o):
    import numpy as np

    if isinstance(o, np.ndarray):
        return o.tolist()
    if isinstance(o, (np.floating,)):
        return float(o)
    if isinstance(o, (np.integer,)):
        return int(o)
    if isinstance(o, (np.bool_,)):
        return bool(o)
    if isinstance(o, (set, frozenset, tuple)):
        return list(o)
    raise TypeError(type(o))


def case_hash(case) -> str:
    return hashlib.blake2b(canon(case).encode(), digest_size=8).hexdigest()


def vopy_frame_sig(exc: BaseException) -> Optional[str]:
    """Innermost traceback frame that lies in the vopy package, as 'file:func', else None."""
    tb = traceback.extract_tb(exc.__traceback__)
    hit = None
    for fr in tb:
        fn = fr.filename.replace("\\", "/")
        if "/vopy/" in fn and "/vverif/" not in fn:
            hit = f"{fn.split('/vopy/')[-1]}:{fr.name}"
    return hit


class CaseTimeout(BaseException):
    pass


def _alarm(signum, frame):
    raise CaseTimeout()


def run_check(comp: Component, case) -> Result:
    """run_check_inner under a generous per-case watchdog: a case that does not come back (e.g. an optimiser spinning
    under a changed tree) is counted 'skip:case-timeout' - a time limit is never a violation."""
    import signal
    import threading

    limit = int(os.environ.get("VERIF_CASE_TIMEOUT_S", "300"))
    if limit <= 0 or threading.current_thread() is not threading.main_thread() or not hasattr(signal, "SIGALRM"):
        return run_check_inner(comp, case)
    old = signal.signal(signal.SIGALRM, _alarm)
    signal.alarm(limit)
    try:
        return run_check_inner(comp, case)
    except CaseTimeout:
        return Result.skip(["case-timeout"])
    finally:
        signal.alarm(0)
        signal.signal(signal.SIGALRM, old)


def run_check_inner(comp: Component, case) -> Result:
    """Run a component's oracle on one case, classifying exceptions.

    An exception whose traceback passes through vopy code is a violation of the property under
    check (the code failed on an input in the generated domain); an exception confined to the
    harness is a harness error and propagates (exit 2).
    """
    from vverif.oracles.geom import OracleInconclusive

    try:
        r = comp.check(case)
    except HarnessError:
        raise
    except OracleInconclusive as e:
        return Result.indet(["oracle-inconclusive:" + str(e)[:40]])
    except Exception as e:  # noqa: BLE001
        where = vopy_frame_sig(e)
        if where is None:
            raise HarnessError(
                f"harness exception in {comp.name}: {type(e).__name__}: {e}\n"
                + "".join(traceback.format_exception(e))[-3000:]
            ) from e
        return Result.violation(
            f"exc:{type(e).__name__}@{where}", f"{type(e).__name__}: {str(e)[:300]}", ("exception",)
        )
    if not isinstance(r, Result):
        raise HarnessError(f"{comp.name}.check returned {type(r)}")
    return r


def load_property(pid: str):
    import importlib

    return importlib.import_module(f"vverif.props.{pid}")


# ---------------------------------------------------------------- known findings
def load_known(pid: str):
    """Return (open, fixed): lists of dicts for this property from KNOWN_FINDINGS.txt."""
    path = os.path.join(HERE, "KNOWN_FINDINGS.txt")
    open_, fixed = [], []
    if not os.path.exists(path):
        return open_, fixed
    for line in open(path):
        line = line.strip()
        if not line or line.startswith("#"):
            continue
        kind, _, rest = line.partition(":")
        rest = rest.strip()
        toks = rest.split()
        d = {"text": rest}
        for t in toks:
            if "=" in t:
                k, _, v = t.partition("=")
                d.setdefault(k, v)
        if d.get("property") != pid:
            continue
        if kind.strip() == "open":
            open_.append(d)
        elif kind.strip() == "fixed":
            fixed.append(d)
    return open_, fixed
