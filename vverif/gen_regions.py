"""Generators for pairs of confidence regions, including margin-targeted placement."""
from __future__ import annotations

import math

import numpy as np
from hypothesis import strategies as st

from vverif import gen
from vverif.oracles import geom


def interior_dir(W):
    z, _, ok = geom.ldp(np.asarray(W, float), np.ones(len(W)))
    if not ok or z is None or np.linalg.norm(z) == 0:
        z = np.asarray(W, float).sum(axis=0)
    return z / np.linalg.norm(z)


def rotation(m, angles):
    Q = np.eye(m)
    k = 0
    for i in range(m):
        for j in range(i + 1, m):
            a = angles[k % len(angles)]
            k += 1
            G = np.eye(m)
            G[i, i] = G[j, j] = math.cos(a)
            G[i, j] = -math.sin(a)
            G[j, i] = math.sin(a)
            Q = Q @ G
    return Q


@st.composite
def st_rect(draw, m, scale=None, dyadic=False):
    if dyadic:
        lo = [draw(st.integers(-8, 8)) / 4 for _ in range(m)]
        w = [draw(st.sampled_from([0, 0.25, 0.5, 1.0, 2.0])) for _ in range(m)]
        return {"lo": lo, "hi": [a + b for a, b in zip(lo, w)]}
    if scale is None:
        scale = draw(gen.st_logfloat(1e-4, 1e2))
    c = [draw(st.floats(-3, 3)) * scale for _ in range(m)]
    h = [0.0 if draw(st.integers(0, 19)) == 0 else scale * draw(gen.st_logfloat(0.03, 1.0)) for _ in range(m)]
    return {"lo": [a - b for a, b in zip(c, h)], "hi": [a + b for a, b in zip(c, h)]}


@st.composite
def st_ell(draw, m, scale=None, a_range=(0.1, 50), always_rotated=False):
    if scale is None:
        scale = draw(gen.st_logfloat(1e-4, 1e2))
    a = draw(gen.st_logfloat(*a_range))
    ext = [scale * draw(gen.st_logfloat(0.03, 1.0)) for _ in range(m)]
    lam = [(e / a) ** 2 for e in ext]
    if not always_rotated and draw(st.integers(0, 4)) == 0:
        Q = np.eye(m)
    else:
        Q = rotation(m, [draw(st.floats(0, math.pi)) for _ in range(m * (m - 1) // 2)])
    S = Q @ np.diag(lam) @ Q.T
    S = (S + S.T) / 2
    c = [draw(st.floats(-3, 3)) * scale for _ in range(m)]
    return {"c": c, "S": S.tolist(), "a": a}


def mk_rect(spec):
    from vopy.confidence_region import RectangularConfidenceRegion

    return RectangularConfidenceRegion(len(spec["lo"]), np.array(spec["lo"], float), np.array(spec["hi"], float))


def mk_ell(spec):
    from vopy.confidence_region import EllipsoidalConfidenceRegion

    return EllipsoidalConfidenceRegion(len(spec["c"]), np.array(spec["c"], float), np.array(spec["S"], float), spec["a"])


def region_pair(case, kind, warm):
    """Region objects for case r1 / r2 and the specs the oracle should use.  Without case['first']: fresh objects.
    With it: objects built for another pair, used once in a comparison (warm), then moved to r1 / r2 through their
    public update() - what a design space does every round.  The specs are read back from the objects."""
    mk = mk_rect if kind == "rect" else mk_ell
    if not case.get("first"):
        return mk(case["r1"]), mk(case["r2"]), case["r1"], case["r2"]
    mode = case["first"].get("mode", "update")
    if kind == "rect" and mode != "update":
        # objects with intersect_iteratively=True built around the target box (padded on every side by the widths of the
        # 'first' box, so the intersection is the target box), compared once, then refined to the target box through the
        # public intersect() or through update() (which intersects): what iterative refinement does every round
        from vopy.confidence_region import RectangularConfidenceRegion

        objs, out = [], []
        for key in ("r1", "r2"):
            lo, hi = np.array(case[key]["lo"], float), np.array(case[key]["hi"], float)
            pad = np.array(case["first"][key]["hi"], float) - np.array(case["first"][key]["lo"], float)
            objs.append(RectangularConfidenceRegion(len(lo), lo - pad, hi + pad[::-1], intersect_iteratively=True))
        warm(objs[0], objs[1])
        for R, key in zip(objs, ("r1", "r2")):
            lo, hi = np.array(case[key]["lo"], float), np.array(case[key]["hi"], float)
            if mode == "intersect":
                R.intersect(lo, hi)
            else:
                R.update((lo + hi) / 2, np.diag(((hi - lo) / 2) ** 2), np.array(1.0))
            out.append({"lo": np.asarray(R.lower, float).tolist(), "hi": np.asarray(R.upper, float).tolist()})
        return objs[0], objs[1], out[0], out[1]
    R1, R2 = mk(case["first"]["r1"]), mk(case["first"]["r2"])
    warm(R1, R2)
    out = []
    for R, sp in ((R1, case["r1"]), (R2, case["r2"])):
        if kind == "ell":
            R.update(np.array(sp["c"], float), np.array(sp["S"], float), sp["a"])
            out.append({"c": np.asarray(R.center, float).tolist(), "S": np.asarray(R.sigma, float).tolist(), "a": float(R.alpha)})
        else:
            lo, hi = np.array(sp["lo"], float), np.array(sp["hi"], float)
            R.update((lo + hi) / 2, np.diag(((hi - lo) / 2) ** 2), np.array(1.0))
            out.append({"lo": np.asarray(R.lower, float).tolist(), "hi": np.asarray(R.upper, float).tolist()})
    return R1, R2, out[0], out[1]


@st.composite
def st_first_pair(draw, kind, m, scale, small=False):
    """The pair the objects are built for before they are updated (same dimension, comparable size)."""
    f = scale * draw(st.sampled_from([0.3, 1.0, 1.0, 3.0]))
    if kind == "rect":
        return {"r1": draw(st_rect(m, f)), "r2": draw(st_rect(m, f)),
                "mode": draw(st.sampled_from(["update", "update", "intersect", "update_iter"]))}
    kw = {"a_range": (10, 50), "always_rotated": True} if small else {}
    return {"r1": draw(st_ell(m, f, **kw)), "r2": draw(st_ell(m, f, **kw))}


def region_scale(*specs, slack=0.0):
    vals = [1e-300]
    for s in specs:
        if "lo" in s:
            vals += [abs(x) for x in s["lo"]] + [abs(x) for x in s["hi"]]
        else:
            vals += [abs(x) for x in s["c"]] + [s["a"] * math.sqrt(max(np.diag(np.array(s["S"]))))]
    vals += [float(np.max(np.abs(np.asarray(slack, float))))]
    return max(vals)


def solve_shift(fun, target, lo=-1e6, hi=1e6, iters=48):
    """fun(t) continuous, non-decreasing in t; find t with fun(t) ~= target (Illinois regula falsi,
    falls back to bisection steps).  Accuracy 1e-3 relative to |target| is enough for placement."""
    a, b = lo, hi
    fa, fb = fun(a) - target, fun(b) - target
    if fa > 0:
        return a
    if fb < 0:
        return b
    tol = 1e-3 * abs(target) if target != 0 else 1e-12 * (hi - lo)
    side = 0
    for k in range(iters):
        if fb == fa:
            break
        c = b - fb * (b - a) / (fb - fa) if k % 3 != 2 else (a + b) / 2
        fc = fun(c) - target
        if abs(fc) <= tol:
            return c
        if fc < 0:
            a, fa = c, fc
            if side == -1:
                fb /= 2
            side = -1
        else:
            b, fb = c, fc
            if side == 1:
                fa /= 2
            side = 1
    return (a + b) / 2


MARGIN_LEVELS = [1.0, 0.3, 1e-1, 1e-2, 1e-3, 1e-4, 1e-5]


def st_offset(m, exact=False, big=True):
    """Common translation applied to BOTH regions after placement (every region predicate is translation invariant):
    small regions far from the origin."""
    mags = [0, 0, 0, 64, -64, 1024] if exact else [0.0, 0.0, 0.0, 10.0, -10.0, 1000.0, -1000.0]
    if not big:  # solver-decided predicates: their band grows with the coordinate magnitude, keep offsets moderate and rare
        mags = [0.0, 0.0, 0.0, 0.0, 0.0, 10.0, -10.0]
    return st.lists(st.sampled_from(mags), min_size=m, max_size=m)


def shift_region(r, t):
    t = np.asarray(t, float)
    if "lo" in r:
        return {"lo": (np.asarray(r["lo"], float) + t).tolist(), "hi": (np.asarray(r["hi"], float) + t).tolist()}
    return dict(r, c=(np.asarray(r["c"], float) + t).tolist())
