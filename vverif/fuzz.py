"""Coverage-guided adjunct (thorough tier): atheris / libFuzzer drives the SAME Hypothesis strategy and the
same oracle through `test.hypothesis.fuzz_one_input`, with coverage feedback from the instrumented `vopy`
package.  Violations are recorded by signature (never raised, so the campaign continues) and the statistics
file is rewritten periodically because atheris ends the process inside Fuzz().

    python -m vverif.fuzz <pid> <component> <runs> <seed> <out.json> [corpus_dir]
"""
from __future__ import annotations

import json
import os
import sys
import time


def main():
    pid, cname, runs, seed, out = sys.argv[1], sys.argv[2], int(sys.argv[3]), int(sys.argv[4]), sys.argv[5]
    corpus = sys.argv[6] if len(sys.argv) > 6 else None
    try:
        import atheris
    except Exception as e:  # noqa: BLE001
        json.dump({"skipped": f"atheris unavailable: {e}"}, open(out, "w"))
        return 0
    with atheris.instrument_imports(include=["vopy"]):
        import vopy  # noqa: F401
        import vopy.acquisition  # noqa: F401
        import vopy.models  # noqa: F401
        import vopy.order  # noqa: F401
        import vopy.utils  # noqa: F401
    from hypothesis import HealthCheck, given, settings

    from vverif.core import load_known, load_property, run_check
    from vverif.worker import Stats

    mod = load_property(pid)
    comp = {c.name: c for c in mod.COMPONENTS}[cname]
    known = [k["sig"] for k in load_known(pid)[0] if "sig" in k]
    stats = Stats(known)
    t0 = time.time()
    state = {"last_dump": 0}

    def dump(final=False):
        d = stats.dump()
        d["wall_s"] = time.time() - t0
        d["final"] = final
        tmp = out + ".tmp"
        with open(tmp, "w") as f:
            json.dump(d, f)
        os.replace(tmp, out)

    @settings(database=None, deadline=None, suppress_health_check=list(HealthCheck), max_examples=10**9)
    @given(comp.strategy())
    def test(case):
        stats.record(case, run_check(comp, case))
        if stats.evals - state["last_dump"] >= 50:
            state["last_dump"] = stats.evals
            dump()

    def one_input(data):
        test.hypothesis.fuzz_one_input(data)
        if stats.evals >= runs:
            dump(True)
            os._exit(0)

    # most short byte strings are rejected by Hypothesis' decoder before the test body runs: allow many more
    # libFuzzer executions than valid cases wanted, stop ourselves once `runs` valid cases were checked
    budget_s = int(os.environ.get("VERIF_FUZZ_SECONDS", "600"))
    argv = [sys.argv[0], f"-runs={runs * 200}", f"-seed={max(1, seed)}", "-max_len=4096", f"-max_total_time={budget_s}",
            "-print_final_stats=0", "-verbosity=0"]
    if corpus:
        os.makedirs(corpus, exist_ok=True)
        argv.append(corpus)
    dump()
    atheris.Setup(argv, one_input)
    atheris.Fuzz()
    dump(True)
    return 0


if __name__ == "__main__":
    sys.exit(main())
